//! Salsa items of the harness and the salsa back end of the QL evaluator.

use std::sync::atomic::{AtomicBool, AtomicU8, AtomicU64, Ordering::SeqCst};
use std::sync::{Arc, Mutex, OnceLock};

use salsa::plumbing::AsId;
use salsa::{Accumulator, Durability, Setter};

use crate::ex::*;
use crate::val::{D, DH, P, V, point};

// ------------------------------------------------------------------------------------------------
// observation log

#[derive(Clone, Debug, PartialEq, Eq)]
pub enum EvK {
    WillExecute,
    DidValidateMemo,
    WillBlockOn(u8),
    WillIterate(u8),
    DidFinalize(u8),
    WillCheckCancellation,
    DidSetCancellationFlag,
    WillDiscardStale { out: Key },
    DidDiscard,
    DidDiscardAccumulated,
    DidIntern,
    DidReuseInterned,
    DidValidateInterned,
}

/// Identity of a memo / struct as salsa reports it: (ingredient index, id bits).
#[derive(Clone, Copy, Debug, PartialEq, Eq, Hash, PartialOrd, Ord)]
pub struct Key {
    pub ing: salsa::IngredientIndex,
    pub id: u64,
}

#[derive(Clone, Debug, PartialEq, Eq)]
pub enum Rec {
    /// a salsa event
    Ev { th: u8, k: EvK, key: Option<Key> },
    /// a harness body activation starts / ends (fnid = harness function tag, key = argument id bits)
    Enter { th: u8, f: F, key: u64 },
    Exit { th: u8, f: F, key: u64, val: u64, unwinding: bool },
    /// the running body is about to call / returned from a tracked fn
    CallBegin { th: u8, f: F, key: u64 },
    CallEnd { th: u8, f: F, key: u64, val: u8 },
    /// tracked read of an input cell
    ReadCell { th: u8, c: u8, val: u8 },
    ReadExt { th: u8, i: u8, val: u8 },
    ReadCode { th: u8, n: u8 },
    /// struct field read
    ReadFld { th: u8, id: u64, w: u8, val: u8 },
    /// tracked struct created by the running body
    Made { th: u8, variant: u8, ident: u8, f: u8, g: u8, id: u64 },
    /// `sp::specify` returned for this struct
    Specified { th: u8, id: u64, val: u8 },
    /// `Post::SpecPrev`: about to specify on a handle of the previous execution / it was accepted
    SpecPrevAttempt { th: u8, id: u64 },
    SpecPrevAccepted { th: u8, id: u64 },
    /// value interned
    Interned { th: u8, ty: u8, data: u8, id: u64, in_query: bool },
    /// start of a history operation (index)
    Op(u32),
}

/// Harness function tags.
#[derive(Clone, Copy, Debug, PartialEq, Eq, Hash, PartialOrd, Ord, serde::Serialize, serde::Deserialize)]
pub enum F {
    Ev,
    NoEq,
    Lru,
    Ev2,
    Ev0,
    Fx,
    Fxj,
    Fb,
    Mk,
    OnTs,
    OnTs2,
    Sp,
    OnTsc,
    OnIs(u8),
}

impl F {
    pub fn of_kind(k: Kind) -> F {
        match k {
            Kind::Ev => F::Ev,
            Kind::NoEq => F::NoEq,
            Kind::Lru => F::Lru,
            Kind::Ev0 => F::Ev0,
            Kind::Fx => F::Fx,
            Kind::Fxj => F::Fxj,
            Kind::Fb => F::Fb,
            Kind::Mk => F::Mk,
        }
    }
    pub fn has_cycle_handling(self) -> bool {
        matches!(self, F::Fx | F::Fxj | F::Fb)
    }
}

// ------------------------------------------------------------------------------------------------
// per-database harness context

pub struct Tabs {
    pub cells: Vec<Cell>,
    pub nodes: Vec<Code>,
    pub kinds: Vec<Kind>,
    pub root0: Option<u8>,
}

pub struct Cx {
    pub logging: AtomicBool,
    pub log: Mutex<Vec<Rec>>,
    pub ext: [AtomicU8; 4],
    pub tabs: OnceLock<Tabs>,
    /// number of body executions (cheap counter, always on)
    pub executions: AtomicU64,
    /// event-callback is a user-code callback point (C22) only when this is set
    pub event_points: AtomicBool,
    /// struct handles kept outside salsa across executions of a creator (`Post::SpecPrev`):
    /// (creator key, entity index) -> id bits
    pub stash: Mutex<std::collections::BTreeMap<(u64, u32), u64>>,
}

impl Cx {
    pub fn new() -> Cx {
        Cx {
            logging: AtomicBool::new(true),
            log: Mutex::new(Vec::new()),
            ext: [AtomicU8::new(0), AtomicU8::new(0), AtomicU8::new(0), AtomicU8::new(0)],
            tabs: OnceLock::new(),
            executions: AtomicU64::new(0),
            event_points: AtomicBool::new(false),
            stash: Mutex::new(std::collections::BTreeMap::new()),
        }
    }
    #[inline]
    pub fn rec(&self, r: Rec) {
        if self.logging.load(SeqCst) {
            self.log.lock().unwrap_or_else(|e| e.into_inner()).push(r);
        }
    }
    pub fn take_log(&self) -> Vec<Rec> {
        std::mem::take(&mut *self.log.lock().unwrap_or_else(|e| e.into_inner()))
    }
    pub fn tabs(&self) -> &Tabs {
        self.tabs.get().expect("tables initialised")
    }
    pub fn node_of(&self, c: Code) -> u8 {
        let t = self.tabs();
        t.nodes.iter().position(|n| *n == c).expect("known code") as u8
    }
}

impl Default for Cx {
    fn default() -> Self {
        Cx::new()
    }
}

/// Logical index of the current thread (0 outside schedule exploration).
#[inline]
pub fn cur_thread() -> u8 {
    #[cfg(feature = "conc")]
    {
        shuttle::thread::current().id().index() as u8
    }
    #[cfg(not(feature = "conc"))]
    {
        0
    }
}

fn key_of(k: salsa::DatabaseKeyIndex) -> Option<Key> {
    Some(Key { ing: k.ingredient_index(), id: k.key_index().as_bits() })
}

fn on_event(cx: &Cx, event: salsa::Event) {
    use salsa::EventKind as E;
    let (k, key) = match event.kind {
        E::WillExecute { database_key } => (EvK::WillExecute, key_of(database_key)),
        E::DidValidateMemoizedValue { database_key } => (EvK::DidValidateMemo, key_of(database_key)),
        E::WillBlockOn { other_thread_id, database_key } => {
            #[cfg(feature = "conc")]
            let o = other_thread_id.index() as u8;
            #[cfg(not(feature = "conc"))]
            let o = {
                let _ = other_thread_id;
                255
            };
            (EvK::WillBlockOn(o), key_of(database_key))
        }
        E::WillIterateCycle { database_key, iteration } => (EvK::WillIterate(iteration), key_of(database_key)),
        E::DidFinalizeCycle { database_key, iteration } => (EvK::DidFinalize(iteration), key_of(database_key)),
        E::WillCheckCancellation => (EvK::WillCheckCancellation, None),
        E::DidSetCancellationFlag => (EvK::DidSetCancellationFlag, None),
        E::WillDiscardStaleOutput { execute_key, output_key } => {
            (EvK::WillDiscardStale { out: key_of(output_key).unwrap() }, key_of(execute_key))
        }
        E::DidDiscard { key } => (EvK::DidDiscard, key_of(key)),
        E::DidDiscardAccumulated { executor_key, .. } => (EvK::DidDiscardAccumulated, key_of(executor_key)),
        E::DidInternValue { key, .. } => (EvK::DidIntern, key_of(key)),
        E::DidReuseInternedValue { key, .. } => (EvK::DidReuseInterned, key_of(key)),
        E::DidValidateInternedValue { key, .. } => (EvK::DidValidateInterned, key_of(key)),
    };
    // WillCheckCancellation is by far the most frequent event and carries no information the
    // oracles use; keep it out of the log but keep it as a callback point.
    if k != EvK::WillCheckCancellation {
        cx.rec(Rec::Ev { th: cur_thread(), k, key });
    }
    if cx.event_points.load(SeqCst) {
        point(P::Event);
    }
}

// ------------------------------------------------------------------------------------------------
// database

#[salsa::db]
pub trait QDb: salsa::Database {
    fn cx(&self) -> &Cx;
}

#[salsa::db]
#[derive(Clone)]
pub struct Db {
    storage: salsa::Storage<Self>,
    cx: Arc<Cx>,
}

#[salsa::db]
impl salsa::Database for Db {}

#[salsa::db]
impl QDb for Db {
    fn cx(&self) -> &Cx {
        &self.cx
    }
}

impl Db {
    pub fn new() -> Db {
        let cx = Arc::new(Cx::new());
        let cx2 = cx.clone();
        Db { storage: salsa::Storage::new(Some(Box::new(move |event| on_event(&cx2, event)))), cx }
    }
    pub fn cx_arc(&self) -> Arc<Cx> {
        self.cx.clone()
    }
}

impl Default for Db {
    fn default() -> Self {
        Db::new()
    }
}

pub fn sdur(d: Dur) -> Durability {
    match d {
        Dur::Low => Durability::LOW,
        Dur::Medium => Durability::MEDIUM,
        Dur::High => Durability::HIGH,
        Dur::Never => Durability::NEVER_CHANGE,
    }
}

// ------------------------------------------------------------------------------------------------
// salsa structs

#[cfg_attr(feature = "persist", salsa::input(persist))]
#[cfg_attr(not(feature = "persist"), salsa::input)]
pub struct Cell {
    #[returns(copy)]
    pub v: u8,
}

#[cfg_attr(feature = "persist", salsa::input(persist))]
#[cfg_attr(not(feature = "persist"), salsa::input)]
pub struct Code {
    #[returns(ref)]
    pub ex: Ex,
}

#[cfg_attr(feature = "persist", salsa::tracked(persist))]
#[cfg_attr(not(feature = "persist"), salsa::tracked)]
#[derive(Debug)]
pub struct TS<'db> {
    #[returns(ref)]
    pub ident: DH,
    #[tracked]
    #[returns(ref)]
    pub f: V,
    #[tracked]
    #[returns(ref)]
    pub g: V,
}

#[cfg_attr(feature = "persist", salsa::tracked(persist))]
#[cfg_attr(not(feature = "persist"), salsa::tracked)]
#[derive(Debug)]
pub struct TSC<'db> {
    #[returns(ref)]
    pub ident: D,
    #[tracked]
    #[returns(ref)]
    pub f: V,
    #[tracked]
    #[returns(ref)]
    pub g: V,
}

#[cfg_attr(feature = "persist", salsa::interned(revisions = 1, persist))]
#[cfg_attr(not(feature = "persist"), salsa::interned(revisions = 1))]
pub struct IS1<'db> {
    #[returns(ref)]
    pub data: D,
}
#[cfg_attr(feature = "persist", salsa::interned(revisions = 2, persist))]
#[cfg_attr(not(feature = "persist"), salsa::interned(revisions = 2))]
pub struct IS2<'db> {
    #[returns(ref)]
    pub data: D,
}
#[cfg_attr(feature = "persist", salsa::interned(revisions = 3, persist))]
#[cfg_attr(not(feature = "persist"), salsa::interned(revisions = 3))]
pub struct IS3<'db> {
    #[returns(ref)]
    pub data: D,
}
#[cfg_attr(feature = "persist", salsa::interned(revisions = usize::MAX, persist))]
#[cfg_attr(not(feature = "persist"), salsa::interned(revisions = usize::MAX))]
pub struct ISX<'db> {
    #[returns(ref)]
    pub data: D,
}

#[salsa::accumulator]
#[derive(Debug)]
pub struct Acc(pub u8);

#[derive(Clone, Copy, Debug, PartialEq, Eq, Hash, salsa::SalsaValue)]
#[cfg_attr(feature = "persist", derive(serde::Serialize, serde::Deserialize))]
pub enum TRef<'db> {
    A(TS<'db>),
    B(TSC<'db>),
}

impl TRef<'_> {
    pub fn id_bits(self) -> u64 {
        match self {
            TRef::A(t) => t.as_id().as_bits(),
            TRef::B(t) => t.as_id().as_bits(),
        }
    }
}

/// Result of an `Mk` node.
#[derive(Clone, Debug, Eq, salsa::SalsaValue)]
#[cfg_attr(feature = "persist", derive(serde::Serialize, serde::Deserialize))]
pub struct MkOut<'db> {
    pub structs: Vec<TRef<'db>>,
    pub aux: Vec<u8>,
}

/// The comparison salsa uses to backdate a creator's result is user code: a callback point.
impl PartialEq for MkOut<'_> {
    fn eq(&self, other: &Self) -> bool {
        point(P::EqOut);
        self.structs == other.structs && self.aux == other.aux
    }
}

// ------------------------------------------------------------------------------------------------
// activation bookkeeping

struct Act<'a> {
    cx: &'a Cx,
    f: F,
    key: u64,
    val: std::cell::Cell<u64>,
}

impl<'a> Act<'a> {
    fn enter(cx: &'a Cx, f: F, key: u64) -> Act<'a> {
        cx.executions.fetch_add(1, SeqCst);
        cx.rec(Rec::Enter { th: cur_thread(), f, key });
        Act { cx, f, key, val: std::cell::Cell::new(0) }
    }
}

impl Drop for Act<'_> {
    fn drop(&mut self) {
        self.cx.rec(Rec::Exit {
            th: cur_thread(),
            f: self.f,
            key: self.key,
            val: self.val.get(),
            unwinding: std::thread::panicking(),
        });
    }
}

// ------------------------------------------------------------------------------------------------
// the evaluator (shared by the salsa back end and the reference interpreter)

pub trait Be {
    fn cell(&mut self, c: u8) -> u8;
    fn ext(&mut self, i: u8) -> u8;
    fn call(&mut self, n: u8) -> u8;
    fn call2(&mut self, n: u8, salt: u8) -> u8;
    fn call0(&mut self) -> u8;
    fn push(&mut self, v: u8);
    fn fld(&mut self, n: u8, i: u8, w: u8) -> u8;
    fn on_ts(&mut self, n: u8, i: u8, w: u8) -> u8;
    fn len(&mut self, n: u8) -> u8;
    fn int(&mut self, ty: u8, data: u8) -> u8;
    fn int_fn(&mut self, ty: u8, data: u8) -> u8;
    /// callback point between two reads of a body
    fn mid(&mut self) {}
}

pub fn eval<B: Be>(b: &mut B, ex: &Ex) -> u8 {
    match ex {
        Ex::K(k) => *k,
        Ex::Cell(c) => b.cell(*c),
        Ex::Ext(i) => b.ext(*i),
        Ex::Call(n) => {
            let v = b.call(*n);
            b.mid();
            v
        }
        Ex::Call2(n, s) => {
            let v = b.call2(*n, *s);
            b.mid();
            v
        }
        Ex::Call0 => {
            let v = b.call0();
            b.mid();
            v
        }
        Ex::Add(x, y) => {
            let x = eval(b, x);
            let y = eval(b, y);
            x.wrapping_add(y) & 0x3F
        }
        Ex::Or(x, y) => {
            let x = eval(b, x);
            let y = eval(b, y);
            x | y
        }
        Ex::And(x, y) => {
            let x = eval(b, x);
            let y = eval(b, y);
            x & y
        }
        Ex::Not(x) => !eval(b, x) & 7,
        Ex::Succ(x) => eval(b, x).wrapping_add(1) & 3,
        Ex::IfC(c, x, y) => {
            if b.cell(*c) != 0 {
                eval(b, x)
            } else {
                eval(b, y)
            }
        }
        Ex::If(c, x, y) => {
            if eval(b, c) != 0 {
                eval(b, x)
            } else {
                eval(b, y)
            }
        }
        Ex::Seq(v) => {
            let mut last = 0;
            for e in v {
                last = eval(b, e);
            }
            last
        }
        Ex::Push(v) => {
            b.push(*v);
            0
        }
        Ex::PushX(e) => {
            let v = eval(b, e);
            b.push(v);
            0
        }
        Ex::Fld(n, i, w) => b.fld(*n, *i, *w),
        Ex::OnTs(n, i, w) => {
            let v = b.on_ts(*n, *i, *w);
            b.mid();
            v
        }
        Ex::Len(n) => b.len(*n),
        Ex::Int(ty, e) => {
            let d = eval(b, e);
            b.int(*ty, d)
        }
        Ex::IntFn(ty, e) => {
            let d = eval(b, e);
            let v = b.int_fn(*ty, d);
            b.mid();
            v
        }
        Ex::Mk(_) => panic!("QL: Mk code evaluated as an expression"),
    }
}

/// Pure functions computed by the struct-keyed tracked fns (shared with the reference).
pub fn on_ts_fn(f: u8) -> u8 {
    f.wrapping_mul(3).wrapping_add(1) & 0x3F
}
pub fn on_ts2_fn(ident: u8, g: u8) -> u8 {
    (ident.wrapping_mul(5) ^ g.wrapping_add(2)) & 0x3F
}
pub fn sp_fn(g: u8) -> u8 {
    g.wrapping_add(0x40)
}
pub fn on_tsc_fn(f: u8) -> u8 {
    f.wrapping_mul(7).wrapping_add(2) & 0x3F
}
pub fn on_is_fn(ty: u8, data: u8) -> u8 {
    (data.wrapping_mul(5).wrapping_add(ty)) & 0x3F
}
pub fn fb_value(node: u8) -> u8 {
    0xF0 | node
}

/// salsa back end
pub struct SB<'a> {
    pub db: &'a dyn QDb,
    pub in_query: bool,
}

impl<'a> SB<'a> {
    fn cx(&self) -> &'a Cx {
        self.db.cx()
    }
    fn structs(&mut self, n: u8) -> &'a MkOut<'a> {
        let cx = self.cx();
        let code = cx.tabs().nodes[n as usize];
        cx.rec(Rec::CallBegin { th: cur_thread(), f: F::Mk, key: code.as_id().as_bits() });
        let out = mk(self.db, code);
        cx.rec(Rec::CallEnd { th: cur_thread(), f: F::Mk, key: code.as_id().as_bits(), val: out.structs.len() as u8 });
        out
    }
}

pub fn read_fld(db: &dyn QDb, t: TRef<'_>, w: u8) -> u8 {
    let val = match (t, w) {
        (TRef::A(t), 0) => t.ident(db).0,
        (TRef::A(t), 1) => {
            let v = t.f(db);
            assert!(v.intact(), "tracked field f storage corrupted");
            crate::val::retain::note(v);
            v.x
        }
        (TRef::A(t), _) => {
            let v = t.g(db);
            assert!(v.intact(), "tracked field g storage corrupted");
            crate::val::retain::note(v);
            v.x
        }
        (TRef::B(t), 0) => t.ident(db).0,
        (TRef::B(t), 1) => {
            let v = t.f(db);
            assert!(v.intact(), "tracked field f storage corrupted");
            crate::val::retain::note(v);
            v.x
        }
        (TRef::B(t), _) => {
            let v = t.g(db);
            assert!(v.intact(), "tracked field g storage corrupted");
            crate::val::retain::note(v);
            v.x
        }
    };
    db.cx().rec(Rec::ReadFld { th: cur_thread(), id: t.id_bits(), w, val });
    val
}

pub fn call_on_ts(db: &dyn QDb, t: TRef<'_>, w: u8) -> u8 {
    let cx = db.cx();
    let (f, key) = match (t, w) {
        (TRef::A(t), 0) => (F::OnTs, t.as_id().as_bits()),
        (TRef::A(t), 1) => (F::OnTs2, t.as_id().as_bits()),
        (TRef::A(t), _) => (F::Sp, t.as_id().as_bits()),
        (TRef::B(t), _) => (F::OnTsc, t.as_id().as_bits()),
    };
    cx.rec(Rec::CallBegin { th: cur_thread(), f, key });
    let v = match (t, w) {
        (TRef::A(t), 0) => on_ts(db, t),
        (TRef::A(t), 1) => on_ts2(db, t),
        (TRef::A(t), _) => sp(db, t),
        (TRef::B(t), _) => on_tsc(db, t),
    };
    assert!(v.intact(), "memoized value storage corrupted");
    crate::val::retain::note(v);
    cx.rec(Rec::CallEnd { th: cur_thread(), f, key, val: v.x });
    v.x
}

/// Dispatch a call to node `n` through the tracked fn of its kind.
pub fn call_node(db: &dyn QDb, n: u8) -> u8 {
    let cx = db.cx();
    let t = cx.tabs();
    let code = t.nodes[n as usize];
    let kind = t.kinds[n as usize];
    let f = F::of_kind(kind);
    let key = if kind == Kind::Ev0 { 0 } else { code.as_id().as_bits() };
    cx.rec(Rec::CallBegin { th: cur_thread(), f, key });
    let v = match kind {
        Kind::Ev => chk(ev(db, code)),
        Kind::NoEq => chk(ev_noeq(db, code)),
        Kind::Lru => chk(ev_lru(db, code)),
        Kind::Ev0 => chk(ev0(db)),
        Kind::Fx => chk(fx(db, code)),
        Kind::Fxj => chk(fxj(db, code)),
        Kind::Fb => chk(fb(db, code)),
        Kind::Mk => mk(db, code).structs.len() as u8,
    };
    cx.rec(Rec::CallEnd { th: cur_thread(), f, key, val: v });
    v
}

#[inline]
fn chk(v: &V) -> u8 {
    assert!(v.intact(), "memoized value storage corrupted");
    crate::val::retain::note(v);
    v.x
}

pub fn intern(db: &dyn QDb, ty: u8, data: u8, in_query: bool) -> (u8, u64) {
    let (back, id) = match ty {
        1 => {
            let h = IS1::new(db, D(data));
            (h.data(db).0, h.as_id().as_bits())
        }
        2 => {
            let h = IS2::new(db, D(data));
            (h.data(db).0, h.as_id().as_bits())
        }
        3 => {
            let h = IS3::new(db, D(data));
            (h.data(db).0, h.as_id().as_bits())
        }
        _ => {
            let h = ISX::new(db, D(data));
            (h.data(db).0, h.as_id().as_bits())
        }
    };
    db.cx().rec(Rec::Interned { th: cur_thread(), ty, data, id, in_query });
    (back, id)
}

impl Be for SB<'_> {
    fn cell(&mut self, c: u8) -> u8 {
        let cx = self.cx();
        let v = cx.tabs().cells[c as usize].v(self.db);
        cx.rec(Rec::ReadCell { th: cur_thread(), c, val: v });
        v
    }
    fn ext(&mut self, i: u8) -> u8 {
        self.db.report_untracked_read();
        let v = self.cx().ext[i as usize].load(SeqCst);
        self.cx().rec(Rec::ReadExt { th: cur_thread(), i, val: v });
        v
    }
    fn call(&mut self, n: u8) -> u8 {
        call_node(self.db, n)
    }
    fn call2(&mut self, n: u8, salt: u8) -> u8 {
        let cx = self.cx();
        let code = cx.tabs().nodes[n as usize];
        let key = (code.as_id().as_bits() << 8) | salt as u64;
        cx.rec(Rec::CallBegin { th: cur_thread(), f: F::Ev2, key });
        let v = chk(ev2(self.db, code, salt));
        cx.rec(Rec::CallEnd { th: cur_thread(), f: F::Ev2, key, val: v });
        v
    }
    fn call0(&mut self) -> u8 {
        let cx = self.cx();
        cx.rec(Rec::CallBegin { th: cur_thread(), f: F::Ev0, key: 0 });
        let v = chk(ev0(self.db));
        cx.rec(Rec::CallEnd { th: cur_thread(), f: F::Ev0, key: 0, val: v });
        v
    }
    fn push(&mut self, v: u8) {
        Acc(v).accumulate(self.db);
    }
    fn fld(&mut self, n: u8, i: u8, w: u8) -> u8 {
        let out = self.structs(n);
        match out.structs.get(i as usize) {
            Some(t) => read_fld(self.db, *t, w),
            None => ABSENT,
        }
    }
    fn on_ts(&mut self, n: u8, i: u8, w: u8) -> u8 {
        let out = self.structs(n);
        match out.structs.get(i as usize) {
            Some(t) => call_on_ts(self.db, *t, w),
            None => ABSENT,
        }
    }
    fn len(&mut self, n: u8) -> u8 {
        self.structs(n).structs.len() as u8
    }
    fn int(&mut self, ty: u8, data: u8) -> u8 {
        intern(self.db, ty, data, self.in_query).0
    }
    fn int_fn(&mut self, ty: u8, data: u8) -> u8 {
        let db = self.db;
        let cx = self.cx();
        let (f, key, v) = match ty {
            1 => {
                let h = IS1::new(db, D(data));
                let key = h.as_id().as_bits();
                cx.rec(Rec::Interned { th: cur_thread(), ty, data, id: key, in_query: self.in_query });
                cx.rec(Rec::CallBegin { th: cur_thread(), f: F::OnIs(1), key });
                (F::OnIs(1), key, chk(on_is1(db, h)))
            }
            2 => {
                let h = IS2::new(db, D(data));
                let key = h.as_id().as_bits();
                cx.rec(Rec::Interned { th: cur_thread(), ty, data, id: key, in_query: self.in_query });
                cx.rec(Rec::CallBegin { th: cur_thread(), f: F::OnIs(2), key });
                (F::OnIs(2), key, chk(on_is2(db, h)))
            }
            3 => {
                let h = IS3::new(db, D(data));
                let key = h.as_id().as_bits();
                cx.rec(Rec::Interned { th: cur_thread(), ty, data, id: key, in_query: self.in_query });
                cx.rec(Rec::CallBegin { th: cur_thread(), f: F::OnIs(3), key });
                (F::OnIs(3), key, chk(on_is3(db, h)))
            }
            _ => {
                let h = ISX::new(db, D(data));
                let key = h.as_id().as_bits();
                cx.rec(Rec::Interned { th: cur_thread(), ty, data, id: key, in_query: self.in_query });
                cx.rec(Rec::CallBegin { th: cur_thread(), f: F::OnIs(0), key });
                (F::OnIs(0), key, chk(on_isx(db, h)))
            }
        };
        cx.rec(Rec::CallEnd { th: cur_thread(), f, key, val: v });
        v
    }
    fn mid(&mut self) {
        if self.in_query {
            point(P::BodyMid);
        }
    }
}

// ------------------------------------------------------------------------------------------------
// tracked functions

fn body(db: &dyn QDb, f: F, n: Code, salt: u8) -> V {
    let cx = db.cx();
    let key = if f == F::Ev2 { (n.as_id().as_bits() << 8) | salt as u64 } else { n.as_id().as_bits() };
    let act = Act::enter(cx, f, key);
    point(P::BodyEntry);
    let ni = cx.node_of(n);
    cx.rec(Rec::ReadCode { th: cur_thread(), n: ni });
    let ex = n.ex(db);
    let mut be = SB { db, in_query: true };
    let x = eval(&mut be, ex).wrapping_add(salt);
    point(P::BodyExit);
    act.val.set(x as u64);
    V::new(x)
}

#[cfg_attr(feature = "persist", salsa::tracked(persist))]
#[cfg_attr(not(feature = "persist"), salsa::tracked)]
pub fn ev(db: &dyn QDb, n: Code) -> V {
    body(db, F::Ev, n, 0)
}

#[cfg_attr(feature = "persist", salsa::tracked(no_eq, persist))]
#[cfg_attr(not(feature = "persist"), salsa::tracked(no_eq))]
pub fn ev_noeq(db: &dyn QDb, n: Code) -> V {
    body(db, F::NoEq, n, 0)
}

fn heap_one(_v: &V) -> usize {
    1
}

#[salsa::tracked(lru = 2, heap_size = heap_one)]
pub fn ev_lru(db: &dyn QDb, n: Code) -> V {
    body(db, F::Lru, n, 0)
}

#[cfg_attr(feature = "persist", salsa::tracked(persist))]
#[cfg_attr(not(feature = "persist"), salsa::tracked)]
pub fn ev2(db: &dyn QDb, n: Code, salt: u8) -> V {
    body(db, F::Ev2, n, salt)
}

#[cfg_attr(feature = "persist", salsa::tracked(persist))]
#[cfg_attr(not(feature = "persist"), salsa::tracked)]
pub fn ev0(db: &dyn QDb) -> V {
    let cx = db.cx();
    let act = Act::enter(cx, F::Ev0, 0);
    point(P::BodyEntry);
    let t = cx.tabs();
    let n = t.nodes[t.root0.expect("program has root0") as usize];
    let ni = cx.node_of(n);
    cx.rec(Rec::ReadCode { th: cur_thread(), n: ni });
    let ex = n.ex(db);
    let mut be = SB { db, in_query: true };
    let x = eval(&mut be, ex);
    point(P::BodyExit);
    act.val.set(x as u64);
    V::new(x)
}

fn fx_init(_db: &dyn QDb, _id: salsa::Id, _n: Code) -> V {
    point(P::CycleInitial);
    V::new(0)
}

fn fxj_fn(_db: &dyn QDb, _cycle: &salsa::Cycle, last: &V, value: V, _n: Code) -> V {
    point(P::CycleFn);
    V::new(last.x | value.x)
}

fn fb_res(db: &dyn QDb, _id: salsa::Id, n: Code) -> V {
    point(P::CycleResult);
    V::new(fb_value(db.cx().node_of(n)))
}

#[salsa::tracked(cycle_initial = fx_init)]
pub fn fx(db: &dyn QDb, n: Code) -> V {
    body(db, F::Fx, n, 0)
}

#[salsa::tracked(cycle_fn = fxj_fn, cycle_initial = fx_init)]
pub fn fxj(db: &dyn QDb, n: Code) -> V {
    body(db, F::Fxj, n, 0)
}

#[salsa::tracked(cycle_result = fb_res)]
pub fn fb(db: &dyn QDb, n: Code) -> V {
    body(db, F::Fb, n, 0)
}

#[cfg_attr(feature = "persist", salsa::tracked(persist))]
#[cfg_attr(not(feature = "persist"), salsa::tracked(lru = 64))]
pub fn mk<'db>(db: &'db dyn QDb, n: Code) -> MkOut<'db> {
    let cx = db.cx();
    let act = Act::enter(cx, F::Mk, n.as_id().as_bits());
    point(P::BodyEntry);
    let ni = cx.node_of(n);
    cx.rec(Rec::ReadCode { th: cur_thread(), n: ni });
    let ex = n.ex(db);
    let Ex::Mk(ents) = ex else { panic!("QL: Mk node without Mk code") };
    let mut be = SB { db, in_query: true };
    let mut structs = Vec::new();
    let mut aux = Vec::new();
    for (ei, e) in ents.iter().enumerate() {
        if eval(&mut be, &e.cond) == 0 {
            continue;
        }
        for p in &e.post {
            if let Post::SpecPrev { val } = p {
                let prev = cx.stash.lock().unwrap_or_else(|e| e.into_inner()).get(&(n.as_id().as_bits(), ei as u32)).copied();
                if let Some(bits) = prev {
                    let v = eval(&mut be, val);
                    cx.rec(Rec::SpecPrevAttempt { th: cur_thread(), id: bits });
                    let old = <TS as salsa::plumbing::FromId>::from_id(salsa::Id::from_bits(bits));
                    sp::specify(db, old, V::new(v));
                    cx.rec(Rec::SpecPrevAccepted { th: cur_thread(), id: bits });
                }
            }
        }
        let ident = eval(&mut be, &e.ident);
        let f = eval(&mut be, &e.f);
        let g = eval(&mut be, &e.g);
        let t = if e.variant == 0 {
            TRef::A(TS::new(db, DH(ident), V::new(f), V::new(g)))
        } else {
            TRef::B(TSC::new(db, D(ident), V::new(f), V::new(g)))
        };
        cx.rec(Rec::Made { th: cur_thread(), variant: e.variant, ident, f, g, id: t.id_bits() });
        if e.variant == 0 && e.post.iter().any(|p| matches!(p, Post::SpecPrev { .. })) {
            cx.stash.lock().unwrap_or_else(|e| e.into_inner()).insert((n.as_id().as_bits(), ei as u32), t.id_bits());
        }
        point(P::BodyMid);
        for p in &e.post {
            match p {
                Post::Spec { cond, val } => {
                    if eval(&mut be, cond) != 0 {
                        let v = eval(&mut be, val);
                        if let TRef::A(ts) = t {
                            sp::specify(db, ts, V::new(v));
                            cx.rec(Rec::Specified { th: cur_thread(), id: t.id_bits(), val: v });
                        }
                    }
                }
                Post::CallSp => {
                    aux.push(call_on_ts(db, t, 2));
                }
                Post::SpecPrev { .. } => {}
                Post::SpecOther { cond, node, idx, val } => {
                    if eval(&mut be, cond) != 0 {
                        let v = eval(&mut be, val);
                        let other = be.structs(*node);
                        if let Some(TRef::A(ts)) = other.structs.get(*idx as usize) {
                            sp::specify(db, *ts, V::new(v));
                        }
                    }
                }
            }
        }
        structs.push(t);
    }
    point(P::BodyExit);
    // 64-bit digest of the result (ids and aux), so that monitors can tell whether it changed
    let mut h: u64 = 0xcbf29ce484222325;
    for t in &structs {
        h = (h ^ t.id_bits()).wrapping_mul(0x100000001b3);
    }
    for a in &aux {
        h = (h ^ (0x100 | *a as u64)).wrapping_mul(0x100000001b3);
    }
    act.val.set(h);
    MkOut { structs, aux }
}

#[cfg_attr(feature = "persist", salsa::tracked(persist))]
#[cfg_attr(not(feature = "persist"), salsa::tracked)]
pub fn on_ts<'db>(db: &'db dyn QDb, t: TS<'db>) -> V {
    let cx = db.cx();
    let act = Act::enter(cx, F::OnTs, t.as_id().as_bits());
    point(P::BodyEntry);
    let f = read_fld(db, TRef::A(t), 1);
    let x = on_ts_fn(f);
    act.val.set(x as u64);
    V::new(x)
}

#[cfg_attr(feature = "persist", salsa::tracked(persist))]
#[cfg_attr(not(feature = "persist"), salsa::tracked)]
pub fn on_ts2<'db>(db: &'db dyn QDb, t: TS<'db>) -> V {
    let cx = db.cx();
    let act = Act::enter(cx, F::OnTs2, t.as_id().as_bits());
    point(P::BodyEntry);
    let i = read_fld(db, TRef::A(t), 0);
    let g = read_fld(db, TRef::A(t), 2);
    let x = on_ts2_fn(i, g);
    act.val.set(x as u64);
    V::new(x)
}

#[salsa::tracked(specify)]
pub fn sp<'db>(db: &'db dyn QDb, t: TS<'db>) -> V {
    let cx = db.cx();
    let act = Act::enter(cx, F::Sp, t.as_id().as_bits());
    point(P::BodyEntry);
    let g = read_fld(db, TRef::A(t), 2);
    let x = sp_fn(g);
    act.val.set(x as u64);
    V::new(x)
}

#[cfg_attr(feature = "persist", salsa::tracked(persist))]
#[cfg_attr(not(feature = "persist"), salsa::tracked)]
pub fn on_tsc<'db>(db: &'db dyn QDb, t: TSC<'db>) -> V {
    let cx = db.cx();
    let act = Act::enter(cx, F::OnTsc, t.as_id().as_bits());
    point(P::BodyEntry);
    let f = read_fld(db, TRef::B(t), 1);
    let x = on_tsc_fn(f);
    act.val.set(x as u64);
    V::new(x)
}

macro_rules! on_is_fn {
    ($name:ident, $ty:ident, $tag:expr) => {
        #[cfg_attr(feature = "persist", salsa::tracked(persist))]
        #[cfg_attr(not(feature = "persist"), salsa::tracked)]
        pub fn $name<'db>(db: &'db dyn QDb, h: $ty<'db>) -> V {
            let cx = db.cx();
            let act = Act::enter(cx, F::OnIs($tag), h.as_id().as_bits());
            point(P::BodyEntry);
            let d = h.data(db).0;
            let x = on_is_fn($tag, d);
            act.val.set(x as u64);
            V::new(x)
        }
    };
}
on_is_fn!(on_is1, IS1, 1);
on_is_fn!(on_is2, IS2, 2);
on_is_fn!(on_is3, IS3, 3);
on_is_fn!(on_isx, ISX, 0);

// ------------------------------------------------------------------------------------------------
// session: a database loaded with a program; applies history operations

/// How a top-level operation ended.
#[derive(Clone, Debug, PartialEq, Eq, serde::Serialize, serde::Deserialize)]
pub enum Out {
    Unit,
    Val(u8),
    Vals(Vec<u8>),
    Panic(Pk),
}

/// Panic classes (matched by payload type / message).
#[derive(Clone, Debug, PartialEq, Eq, serde::Serialize, serde::Deserialize)]
pub enum Pk {
    Injected(u64),
    CancelLocal,
    CancelPendingWrite,
    CancelPropagated,
    Cycle,
    TooManyIterations,
    Frozen,
    SpecifyForeign,
    SpecifyTwice,
    Other(String),
}

pub fn classify(payload: Box<dyn std::any::Any + Send>) -> Pk {
    if let Some(m) = payload.downcast_ref::<crate::val::Marker>() {
        return Pk::Injected(m.0);
    }
    if let Some(c) = payload.downcast_ref::<salsa::Cancelled>() {
        return match c {
            salsa::Cancelled::Local => Pk::CancelLocal,
            salsa::Cancelled::PendingWrite => Pk::CancelPendingWrite,
            salsa::Cancelled::PropagatedPanic => Pk::CancelPropagated,
            _ => Pk::Other("unknown Cancelled".into()),
        };
    }
    let msg = if let Some(s) = payload.downcast_ref::<String>() {
        s.clone()
    } else if let Some(s) = payload.downcast_ref::<&'static str>() {
        s.to_string()
    } else {
        "<non-string payload>".to_string()
    };
    if msg.contains("dependency graph cycle") {
        Pk::Cycle
    } else if msg.contains("too many cycle iterations") {
        Pk::TooManyIterations
    } else if msg.contains("never-changing inputs cannot be mutated") {
        Pk::Frozen
    } else if msg.contains("can only use `specify` on salsa structs created during the current tracked fn") {
        Pk::SpecifyForeign
    } else if msg.contains("cannot call `specify` twice") {
        Pk::SpecifyTwice
    } else {
        Pk::Other(msg)
    }
}

/// Apply a request (read-only operation) on any handle; panics propagate.
pub fn request_raw(db: &Db, op: &Op) -> Out {
    let cx = db.cx_arc();
    let t = cx.tabs();
    match op {
        Op::Q(n) => Out::Val(call_node(db, *n)),
        Op::Q2(n, s) => {
            let mut be = SB { db, in_query: false };
            Out::Val(be.call2(*n, *s))
        }
        Op::Q0 => {
            let mut be = SB { db, in_query: false };
            Out::Val(be.call0())
        }
        Op::Acc(n) => {
            let code = t.nodes[*n as usize];
            let vals: Vec<u8> = match t.kinds[*n as usize] {
                Kind::Ev => ev::accumulated::<Acc>(db, code).into_iter().map(|a| a.0).collect(),
                Kind::NoEq => ev_noeq::accumulated::<Acc>(db, code).into_iter().map(|a| a.0).collect(),
                Kind::Lru => ev_lru::accumulated::<Acc>(db, code).into_iter().map(|a| a.0).collect(),
                Kind::Ev0 => ev0::accumulated::<Acc>(db).into_iter().map(|a| a.0).collect(),
                Kind::Fx => fx::accumulated::<Acc>(db, code).into_iter().map(|a| a.0).collect(),
                Kind::Fxj => fxj::accumulated::<Acc>(db, code).into_iter().map(|a| a.0).collect(),
                Kind::Fb => fb::accumulated::<Acc>(db, code).into_iter().map(|a| a.0).collect(),
                Kind::Mk => mk::accumulated::<Acc>(db, code).into_iter().map(|a| a.0).collect(),
            };
            Out::Vals(vals)
        }
        Op::QFld(n, i, w) => {
            let mut be = SB { db, in_query: false };
            Out::Val(be.fld(*n, *i, *w))
        }
        Op::QOnTs(n, i, w) => {
            let mut be = SB { db, in_query: false };
            Out::Val(be.on_ts(*n, *i, *w))
        }
        Op::QInt(ty, d) => Out::Val(intern(db, *ty, *d, false).0),
        Op::QK(n, kind) => {
            let code = t.nodes[*n as usize];
            let f = F::of_kind(*kind);
            let key = code.as_id().as_bits();
            cx.rec(Rec::CallBegin { th: cur_thread(), f, key });
            let v = match kind {
                Kind::NoEq => ev_noeq(db, code).x,
                Kind::Lru => ev_lru(db, code).x,
                _ => ev(db, code).x,
            };
            cx.rec(Rec::CallEnd { th: cur_thread(), f, key, val: v });
            Out::Val(v)
        }
        Op::NewInput(v) => {
            let c = Cell::new(db, *v);
            let back = c.v(db);
            cx.rec(Rec::Made { th: cur_thread(), variant: 9, ident: *v, f: back, g: 0, id: c.as_id().as_bits() });
            Out::Val(back)
        }
        _ => panic!("QL: not a request: {op:?}"),
    }
}

/// Apply a request, catching panics at the operation boundary.
pub fn request(db: &Db, op: &Op) -> Out {
    match std::panic::catch_unwind(std::panic::AssertUnwindSafe(|| request_raw(db, op))) {
        Ok(o) => o,
        Err(p) => Out::Panic(classify(p)),
    }
}

/// Number of `ev_lru` results that currently hold a value (each weighs 1 through `heap_size`).
pub fn lru_cached_count(db: &Db) -> usize {
    let info = (db as &dyn salsa::Database).memory_usage();
    info.queries.iter().filter(|(k, _)| k.ends_with("ev_lru")).map(|(_, v)| v.heap_size_of_fields().unwrap_or(0)).sum()
}

/// Ids of all currently enumerated tracked structs (TS, TSC).
pub fn ts_entry_ids(db: &Db) -> (Vec<u64>, Vec<u64>) {
    use salsa::plumbing::ZalsaDatabase;
    let z = db.zalsa();
    let a = TS::ingredient(db).entries(z).map(|e| e.key().key_index().as_bits()).collect();
    let b = TSC::ingredient(db).entries(z).map(|e| e.key().key_index().as_bits()).collect();
    (a, b)
}

pub struct Sess {
    pub db: Db,
    pub prog: Arc<Program>,
    pub swapped: Vec<bool>,
}

impl Sess {
    pub fn new(prog: Arc<Program>) -> Sess {
        let db = Db::new();
        Self::with_db(db, prog)
    }

    pub fn with_db(db: Db, prog: Arc<Program>) -> Sess {
        let cx = db.cx_arc();
        for (i, v) in prog.ext.iter().enumerate() {
            cx.ext[i].store(*v, SeqCst);
        }
        let cells: Vec<Cell> =
            prog.cells.iter().map(|(v, d)| Cell::builder(*v).v_durability(sdur(*d)).new(&db)).collect();
        let nodes: Vec<Code> =
            prog.nodes.iter().map(|n| Code::builder(n.ex.clone()).ex_durability(sdur(n.dur)).new(&db)).collect();
        let kinds = prog.nodes.iter().map(|n| n.kind).collect();
        let _ = cx.tabs.set(Tabs { cells, nodes, kinds, root0: prog.root0 });
        let swapped = vec![false; prog.nodes.len()];
        Sess { db, prog, swapped }
    }

    /// Current code of node n (after swaps).
    pub fn cur_ex(&self, n: usize) -> &Ex {
        if self.swapped[n] { self.prog.nodes[n].alt.as_ref().unwrap() } else { &self.prog.nodes[n].ex }
    }

    /// Apply one operation, catching panics at the operation boundary.
    pub fn apply(&mut self, op: &Op) -> Out {
        let r = std::panic::catch_unwind(std::panic::AssertUnwindSafe(|| self.apply_raw(op)));
        match r {
            Ok(o) => o,
            Err(p) => Out::Panic(classify(p)),
        }
    }

    pub fn apply_raw(&mut self, op: &Op) -> Out {
        let cx = self.db.cx_arc();
        let t = cx.tabs();
        match op {
            Op::Set(c, v) => {
                t.cells[*c as usize].set_v(&mut self.db).to(*v);
                Out::Unit
            }
            Op::SetD(c, v, d) => {
                t.cells[*c as usize].set_v(&mut self.db).with_durability(sdur(*d)).to(*v);
                Out::Unit
            }
            Op::Syn(d) => {
                use salsa::Database;
                self.db.synthetic_write(sdur(*d));
                Out::Unit
            }
            Op::SetExt(i, v) => {
                cx.ext[*i as usize].store(*v, SeqCst);
                Out::Unit
            }
            Op::SetExtSyn(i, v, d) => {
                use salsa::Database;
                cx.ext[*i as usize].store(*v, SeqCst);
                self.db.synthetic_write(sdur(*d));
                Out::Unit
            }
            Op::Q(_) | Op::Q2(..) | Op::Q0 | Op::Acc(_) | Op::QFld(..) | Op::QOnTs(..) | Op::QInt(..) | Op::NewInput(_) | Op::QK(..) => {
                request_raw(&self.db, op)
            }
            Op::QClone(n) => {
                let h = self.db.clone();
                let out = request_raw(&h, &Op::Q(*n));
                drop(h);
                out
            }
            Op::Prefill(n) => {
                let h = self.db.clone();
                for i in 0..*n {
                    let c = Cell::new(&h, i);
                    cx.rec(Rec::Made { th: cur_thread(), variant: 9, ident: i, f: c.v(&h), g: 0, id: c.as_id().as_bits() });
                }
                drop(h);
                Out::Unit
            }
            Op::Reclone => Out::Unit,
            Op::Swap(n) => {
                let i = *n as usize;
                let new = if self.swapped[i] {
                    self.prog.nodes[i].ex.clone()
                } else {
                    self.prog.nodes[i].alt.clone().expect("node has an alternative")
                };
                t.nodes[i].set_ex(&mut self.db).to(new);
                self.swapped[i] = !self.swapped[i];
                Out::Unit
            }
            Op::LruCap(c) => {
                ev_lru::set_lru_capacity(&mut self.db, *c as usize);
                Out::Unit
            }
            #[cfg(not(feature = "persist"))]
            Op::MkLruCap(c) => {
                mk::set_lru_capacity(&mut self.db, *c as usize);
                Out::Unit
            }
            #[cfg(feature = "persist")]
            Op::MkLruCap(_) => panic!("MkLruCap is not available in the persist configuration"),
            Op::LruTrig => {
                use salsa::Database;
                self.db.trigger_lru_eviction();
                Out::Unit
            }
            Op::Cancel => {
                use salsa::Database;
                self.db.trigger_cancellation();
                Out::Unit
            }
            #[cfg(feature = "persist")]
            Op::RoundTrip => {
                self.roundtrip();
                Out::Unit
            }
            #[cfg(not(feature = "persist"))]
            Op::RoundTrip => panic!("RoundTrip needs the persist configuration"),
        }
    }

    /// Serialize the database to JSON, deserialize it into a fresh database and continue there.
    #[cfg(feature = "persist")]
    pub fn roundtrip(&mut self) {
        use salsa::plumbing::ZalsaDatabase;
        let json = serde_json::to_string(&<dyn salsa::Database>::as_serialize(&mut self.db)).expect("serialize database");
        if std::env::var("MC_DUMP_JSON").is_ok() {
            eprintln!("{json}");
        }
        let old_cx = self.db.cx_arc();
        let mut db2 = Db::new();
        <dyn salsa::Database>::deserialize(&mut db2, &mut serde_json::Deserializer::from_str(&json)).expect("deserialize database");
        let cx = db2.cx_arc();
        for i in 0..4 {
            cx.ext[i].store(old_cx.ext[i].load(SeqCst), SeqCst);
        }
        let z = db2.zalsa();
        let mut cells: Vec<Cell> = Cell::ingredient(&db2).entries(z).map(|e| e.as_struct()).collect();
        cells.sort_by_key(|c| c.as_id().as_bits());
        let mut nodes: Vec<Code> = Code::ingredient(&db2).entries(z).map(|e| e.as_struct()).collect();
        nodes.sort_by_key(|c| c.as_id().as_bits());
        let old = old_cx.tabs();
        assert_eq!(cells.len(), old.cells.len(), "restored database has a different number of cells");
        assert_eq!(nodes.len(), old.nodes.len(), "restored database has a different number of nodes");
        let _ = cx.tabs.set(Tabs { cells, nodes, kinds: old.kinds.clone(), root0: old.root0 });
        cx.rec(Rec::Op(u32::MAX));
        self.db = db2;
    }

    /// Current value of cell c as stored in the database (top-level read).
    pub fn read_cell(&self, c: u8) -> u8 {
        self.db.cx().tabs().cells[c as usize].v(&self.db)
    }

    /// Current code of node n as stored in the database (top-level read).
    pub fn read_code(&self, n: u8) -> Ex {
        self.db.cx().tabs().nodes[n as usize].ex(&self.db).clone()
    }

    /// Ids of the structs currently returned by mk-node n (top-level request).
    pub fn struct_ids(&self, n: u8) -> Vec<(u8, u64)> {
        let code = self.db.cx().tabs().nodes[n as usize];
        let out = mk(&self.db, code);
        out.structs
            .iter()
            .map(|t| match t {
                TRef::A(_) => (0u8, t.id_bits()),
                TRef::B(_) => (1u8, t.id_bits()),
            })
            .collect()
    }
}
