//! QL: harness language, salsa items, reference interpreter (DESIGN.md §3).
pub mod ex;
pub mod items;
pub mod val;
pub mod refm;
