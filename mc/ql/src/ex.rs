//! QL: the data-driven harness language. A `Program` is plain data; the salsa items in
//! `items.rs` and the reference interpreter in `refm.rs` both interpret it.

use serde::{Deserialize, Serialize};

/// Which tracked function evaluates a node.
#[derive(Clone, Copy, Debug, PartialEq, Eq, Hash, PartialOrd, Ord, Serialize, Deserialize)]
pub enum Kind {
    /// plain tracked fn (no cycle handling)
    Ev,
    /// `no_eq`
    NoEq,
    /// `lru = 2`
    Lru,
    /// zero-argument tracked fn (evaluates the node named by `Program::root0`)
    Ev0,
    /// fixpoint, `cycle_initial` = bottom, default `cycle_fn`
    Fx,
    /// fixpoint, `cycle_initial` = bottom, joining `cycle_fn`
    Fxj,
    /// `cycle_result` fallback
    Fb,
    /// creates tracked structs; its code is `Ex::Mk`
    Mk,
}

pub const ABSENT: u8 = 0xEE;

/// Durability as data.
#[derive(Clone, Copy, Debug, PartialEq, Eq, Hash, PartialOrd, Ord, Serialize, Deserialize)]
pub enum Dur {
    Low,
    Medium,
    High,
    Never,
}
pub const DURS: [Dur; 4] = [Dur::Low, Dur::Medium, Dur::High, Dur::Never];

#[derive(Clone, Debug, PartialEq, Eq, Hash, Serialize, Deserialize)]
pub enum Ex {
    /// constant
    K(u8),
    /// tracked read of input cell i
    Cell(u8),
    /// untracked read of external cell i (+ `report_untracked_read`)
    Ext(u8),
    /// call node n through the tracked fn of its kind
    Call(u8),
    /// `ev2(node, salt)`: two-argument tracked fn (interned key); value = body + salt
    Call2(u8, u8),
    /// `ev0()`
    Call0,
    Add(Box<Ex>, Box<Ex>),
    Or(Box<Ex>, Box<Ex>),
    And(Box<Ex>, Box<Ex>),
    /// non-monotone: bitwise complement within 3 bits
    Not(Box<Ex>),
    /// non-monotone: (x+1) mod 4
    Succ(Box<Ex>),
    /// input-dependent branch: cell c != 0 ? a : b
    IfC(u8, Box<Ex>, Box<Ex>),
    /// value-dependent branch: cond != 0 ? a : b
    If(Box<Ex>, Box<Ex>, Box<Ex>),
    /// evaluate all, value of the last (0 if empty)
    Seq(Vec<Ex>),
    /// accumulate `Acc(v)`; value 0
    Push(u8),
    /// accumulate `Acc(value of e)`; value 0
    PushX(Box<Ex>),
    /// struct field: call mk-node n, take the i-th created struct, read field w
    /// (0 = ident, 1 = tracked f, 2 = tracked g); ABSENT if there is no i-th struct
    Fld(u8, u8, u8),
    /// function keyed by tracked struct: w = 0 `on_ts` (reads f), 1 `on_ts2` (reads ident and g),
    /// 2 `sp` (specifiable; body reads g)
    OnTs(u8, u8, u8),
    /// number of structs created by mk-node n
    Len(u8),
    /// intern `IS<ty>{data = value of e}` and read the field back
    Int(u8, Box<Ex>),
    /// intern and call `on_is<ty>(handle)` (memoized function of the field data)
    IntFn(u8, Box<Ex>),
    /// code of an Mk node
    Mk(Vec<MkEnt>),
}

#[derive(Clone, Debug, PartialEq, Eq, Hash, Serialize, Deserialize)]
pub struct MkEnt {
    /// create only if cond != 0
    pub cond: Ex,
    pub ident: Ex,
    pub f: Ex,
    pub g: Ex,
    /// 0 = `TS` (honest hash of ident), 1 = `TSC` (colliding hash)
    pub variant: u8,
    pub post: Vec<Post>,
}

#[derive(Clone, Debug, PartialEq, Eq, Hash, Serialize, Deserialize)]
pub enum Post {
    /// if cond != 0: `sp::specify(db, ts, val)`
    Spec { cond: Ex, val: Ex },
    /// call `sp(db, ts)` and append the result to the creator's aux output
    CallSp,
    /// specify the i-th struct of ANOTHER mk node (must panic) if cond != 0
    SpecOther { cond: Ex, node: u8, idx: u8, val: Ex },
    /// impure user code: before creating this entity, specify `sp` on the handle this creator
    /// obtained for it in its PREVIOUS execution (kept outside salsa); must panic, because the
    /// current execution has not created that struct
    SpecPrev { val: Ex },
}

#[derive(Clone, Debug, PartialEq, Eq, Hash, Serialize, Deserialize)]
pub struct NodeDef {
    pub kind: Kind,
    pub ex: Ex,
    /// durability of the node's code input field
    pub dur: Dur,
    /// alternative code (the `Swap` operation replaces `ex` by `alt` and back)
    pub alt: Option<Ex>,
}

#[derive(Clone, Debug, PartialEq, Eq, Hash, Serialize, Deserialize)]
pub struct Program {
    pub name: String,
    /// initial value and durability of each input cell
    pub cells: Vec<(u8, Dur)>,
    pub nodes: Vec<NodeDef>,
    /// initial values of external (untracked) cells
    pub ext: Vec<u8>,
    /// node evaluated by the zero-argument function
    pub root0: Option<u8>,
}

/// One step of a history.
#[derive(Clone, Debug, PartialEq, Eq, Hash, Serialize, Deserialize)]
pub enum Op {
    /// write cell c := v keeping its durability
    Set(u8, u8),
    /// write cell c := v with durability d
    SetD(u8, u8, Dur),
    /// `synthetic_write(d)`
    Syn(Dur),
    /// change external cell (no salsa call)
    SetExt(u8, u8),
    /// external cell change + synthetic write (the documented way to publish untracked changes)
    SetExtSyn(u8, u8, Dur),
    /// request node n through its kind's function
    Q(u8),
    /// request `ev2(node, salt)`
    Q2(u8, u8),
    /// request `ev0()`
    Q0,
    /// request `accumulated::<Acc>` of node n
    Acc(u8),
    /// read field w of the i-th struct of mk-node n at top level (getter)
    QFld(u8, u8, u8),
    /// call `on_ts`-family function w on the i-th struct of mk-node n at top level
    QOnTs(u8, u8, u8),
    /// intern at top level and read back
    QInt(u8, u8),
    /// replace the code of node n by its alternative (toggle)
    Swap(u8),
    /// `set_lru_capacity(c)` on the lru function
    LruCap(u8),
    /// `trigger_lru_eviction()`
    LruTrig,
    /// `set_lru_capacity(c)` on the struct-creating function `mk` (default capacity 64)
    MkLruCap(u8),
    /// `trigger_cancellation()`
    Cancel,
    /// serialize + deserialize into a fresh database (persist config only)
    RoundTrip,
    /// create a new input struct with value v on this handle and read it back (C24)
    NewInput(u8),
    /// clone the handle, create n input structs through the clone, drop the clone: leaves a
    /// partially filled page behind for other handles to pick up (C24)
    Prefill(u8),
    /// request node n through a temporary clone of the handle, which is dropped afterwards (the
    /// clone's partially filled table pages go back to the database)
    QClone(u8),
    /// drop this thread's handle and continue on a fresh clone of it (C24; E2 reader threads only)
    Reclone,
    /// request node n through the tracked fn of another kind (two functions on one struct instance)
    QK(u8, Kind),
}

impl Ex {
    pub fn b(self) -> Box<Ex> {
        Box::new(self)
    }
    pub fn add(a: Ex, b: Ex) -> Ex {
        Ex::Add(a.b(), b.b())
    }
    pub fn or(a: Ex, b: Ex) -> Ex {
        Ex::Or(a.b(), b.b())
    }
    pub fn and(a: Ex, b: Ex) -> Ex {
        Ex::And(a.b(), b.b())
    }
    pub fn ifc(c: u8, a: Ex, b: Ex) -> Ex {
        Ex::IfC(c, a.b(), b.b())
    }
    pub fn iff(c: Ex, a: Ex, b: Ex) -> Ex {
        Ex::If(c.b(), a.b(), b.b())
    }
    /// nodes syntactically referenced (static over-approximation of call edges)
    pub fn refs(&self, out: &mut Vec<u8>) {
        match self {
            Ex::K(_) | Ex::Cell(_) | Ex::Ext(_) | Ex::Push(_) => {}
            // marker: the zero-argument function evaluates `Program::root0`
            Ex::Call0 => out.push(255),
            Ex::Call(n) | Ex::Call2(n, _) | Ex::Fld(n, _, _) | Ex::OnTs(n, _, _) | Ex::Len(n) => {
                out.push(*n)
            }
            Ex::Add(a, b) | Ex::Or(a, b) | Ex::And(a, b) | Ex::IfC(_, a, b) => {
                a.refs(out);
                b.refs(out)
            }
            Ex::Not(a) | Ex::Succ(a) | Ex::PushX(a) | Ex::Int(_, a) | Ex::IntFn(_, a) => a.refs(out),
            Ex::If(c, a, b) => {
                c.refs(out);
                a.refs(out);
                b.refs(out)
            }
            Ex::Seq(v) => v.iter().for_each(|e| e.refs(out)),
            Ex::Mk(ents) => {
                for e in ents {
                    e.cond.refs(out);
                    e.ident.refs(out);
                    e.f.refs(out);
                    e.g.refs(out);
                    for p in &e.post {
                        match p {
                            Post::Spec { cond, val } => {
                                cond.refs(out);
                                val.refs(out)
                            }
                            Post::CallSp => {}
                            Post::SpecPrev { val } => val.refs(out),
                            Post::SpecOther { cond, node, val, .. } => {
                                cond.refs(out);
                                out.push(*node);
                                val.refs(out)
                            }
                        }
                    }
                }
            }
        }
    }
}

impl NodeDef {
    pub fn new(kind: Kind, ex: Ex) -> NodeDef {
        NodeDef { kind, ex, dur: Dur::Low, alt: None }
    }
    pub fn dur(mut self, d: Dur) -> NodeDef {
        self.dur = d;
        self
    }
    pub fn alt(mut self, e: Ex) -> NodeDef {
        self.alt = Some(e);
        self
    }
}
