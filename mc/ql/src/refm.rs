//! Reference interpreter: evaluates QL programs from scratch, without salsa and without
//! memoisation. Deliberately boring.

use std::collections::BTreeSet;

use crate::ex::*;
use crate::items::{Be, F, Pk, eval, fb_value, on_is_fn, on_ts2_fn, on_ts_fn, on_tsc_fn, sp_fn};

/// The harness-side model of the current inputs.
#[derive(Clone, Debug, PartialEq, Eq)]
pub struct World {
    pub cells: Vec<u8>,
    pub cell_dur: Vec<Dur>,
    pub ext: Vec<u8>,
    pub code: Vec<Ex>,
    pub code_dur: Vec<Dur>,
    pub swapped: Vec<bool>,
    pub kinds: Vec<Kind>,
    pub root0: Option<u8>,
}

/// What the reference expects of a top-level operation.
#[derive(Clone, Debug, PartialEq, Eq)]
pub enum Expect {
    Unit,
    Val(u8),
    Vals(Vec<u8>),
    /// the operation must panic with this class
    Panic(Pk),
    /// the reference does not define the outcome (outside the envelope)
    Undefined,
}

#[derive(Clone, Debug, PartialEq, Eq)]
pub enum RefErr {
    /// a function without cycle handling was re-entered
    PlainCycle,
    /// fixpoint iteration of the reference did not stabilise
    NoFixpoint,
    SpecifyTwice,
    SpecifyForeign,
    /// construct outside the reference's envelope
    Unsupported(&'static str),
}

#[derive(Clone, Debug, PartialEq, Eq)]
pub struct RStruct {
    pub variant: u8,
    pub ident: u8,
    pub f: u8,
    pub g: u8,
    /// value of `sp` on this struct after the creator finished: Some(v) = specified
    pub spec: Option<u8>,
    /// value `sp` was computed to by the creator itself before any specification
    pub computed_first: Option<u8>,
}

#[derive(Clone, Debug, PartialEq, Eq, Default)]
pub struct RMk {
    pub structs: Vec<RStruct>,
    pub aux: Vec<u8>,
}

impl World {
    pub fn new(p: &Program) -> World {
        World {
            cells: p.cells.iter().map(|c| c.0).collect(),
            cell_dur: p.cells.iter().map(|c| c.1).collect(),
            ext: p.ext.clone(),
            code: p.nodes.iter().map(|n| n.ex.clone()).collect(),
            code_dur: p.nodes.iter().map(|n| n.dur).collect(),
            swapped: vec![false; p.nodes.len()],
            kinds: p.nodes.iter().map(|n| n.kind).collect(),
            root0: p.root0,
        }
    }

    /// Apply a mutating operation to the model. Returns the expected outcome for mutating
    /// operations (Unit or the frozen-write panic), None for requests.
    pub fn apply_write(&mut self, p: &Program, op: &Op) -> Option<Expect> {
        match op {
            Op::Set(c, v) => Some(self.set(*c, *v, None)),
            Op::SetD(c, v, d) => Some(self.set(*c, *v, Some(*d))),
            Op::Syn(d) | Op::SetExtSyn(_, _, d) if *d == Dur::Never => {
                // salsa starts the new revision before the durability assertion fires; the
                // external cell is written by the harness before the call.
                if let Op::SetExtSyn(i, v, _) = op {
                    self.ext[*i as usize] = *v;
                }
                Some(Expect::Panic(Pk::Frozen))
            }
            Op::Syn(_) => Some(Expect::Unit),
            Op::SetExt(i, v) => {
                self.ext[*i as usize] = *v;
                Some(Expect::Unit)
            }
            Op::SetExtSyn(i, v, _) => {
                self.ext[*i as usize] = *v;
                Some(Expect::Unit)
            }
            Op::Swap(n) => {
                let i = *n as usize;
                if self.code_dur[i] == Dur::Never {
                    return Some(Expect::Panic(Pk::Frozen));
                }
                self.swapped[i] = !self.swapped[i];
                self.code[i] =
                    if self.swapped[i] { p.nodes[i].alt.clone().unwrap() } else { p.nodes[i].ex.clone() };
                Some(Expect::Unit)
            }
            Op::LruCap(_) | Op::MkLruCap(_) | Op::LruTrig | Op::Cancel | Op::RoundTrip | Op::Prefill(_) | Op::Reclone => Some(Expect::Unit),
            _ => None,
        }
    }

    fn set(&mut self, c: u8, v: u8, d: Option<Dur>) -> Expect {
        let i = c as usize;
        if self.cell_dur[i] == Dur::Never {
            return Expect::Panic(Pk::Frozen);
        }
        self.cells[i] = v;
        if let Some(d) = d {
            self.cell_dur[i] = d;
        }
        Expect::Unit
    }

    /// Expected outcome of a request.
    pub fn expect(&self, op: &Op) -> Expect {
        // programs with `Post::SpecPrev` (impure user code): whether the creator panics depends
        // on whether it is re-executed, which the memo-free reference does not know
        if self.code.iter().any(|e| format!("{e:?}").contains("SpecPrev")) && !matches!(op, Op::Set(..) | Op::Syn(_)) {
            return Expect::Undefined;
        }
        let r = match op {
            Op::Q(n) | Op::QClone(n) => self.value_of_node(*n),
            Op::Q2(n, s) => self.value_of(F::Ev2, *n, *s),
            Op::Q0 => self.value_of(F::Ev0, 0, 0),
            Op::Acc(n) => return self.accumulated(*n),
            Op::QFld(n, i, w) => self.mk_of(*n).map(|m| match m.structs.get(*i as usize) {
                Some(s) => fld_of(s, *w),
                None => ABSENT,
            }),
            Op::QOnTs(n, i, w) => self.mk_of(*n).map(|m| match m.structs.get(*i as usize) {
                Some(s) => on_ts_of(s, *w),
                None => ABSENT,
            }),
            Op::QInt(_, d) => Ok(*d),
            Op::NewInput(v) => Ok(*v),
            Op::QK(n, k) => self.value_of(F::of_kind(match k { Kind::NoEq => Kind::NoEq, Kind::Lru => Kind::Lru, _ => Kind::Ev }), *n, 0),
            _ => return Expect::Unit,
        };
        match r {
            Ok(v) => Expect::Val(v),
            Err(RefErr::PlainCycle) => Expect::Panic(Pk::Cycle),
            Err(RefErr::NoFixpoint) => Expect::Panic(Pk::TooManyIterations),
            Err(RefErr::SpecifyTwice) => Expect::Panic(Pk::SpecifyTwice),
            Err(RefErr::SpecifyForeign) => Expect::Panic(Pk::SpecifyForeign),
            Err(RefErr::Unsupported(_)) => Expect::Undefined,
        }
    }

    pub fn value_of_node(&self, n: u8) -> Result<u8, RefErr> {
        let f = F::of_kind(self.kinds[n as usize]);
        self.value_of(f, n, 0)
    }

    /// From-scratch value of function f on node n.
    pub fn value_of(&self, f: F, n: u8, salt: u8) -> Result<u8, RefErr> {
        let root = if f == F::Ev0 { self.root0.unwrap_or(0) } else { n };
        let sol = self.solve_from(&[root])?;
        let mut r = Rf::new(self, &sol);
        let v = r.call_f(f, n, salt);
        match r.poison {
            Some(e) => Err(e),
            None => Ok(v),
        }
    }

    pub fn mk_of(&self, n: u8) -> Result<RMk, RefErr> {
        let sol = self.solve_from(&[n])?;
        let mut r = Rf::new(self, &sol);
        let m = r.mk(n);
        match r.poison {
            Some(e) => Err(e),
            None => Ok(m),
        }
    }

    /// Solve the recursive part of the program: least fixpoint for Fx/Fxj nodes (Kleene iteration
    /// from bottom), SCC analysis for Fb nodes.
    pub fn solve(&self) -> Result<Sol, RefErr> {
        let all: Vec<u8> = (0..self.code.len() as u8).collect();
        self.solve_from(&all)
    }

    /// Nodes statically reachable from `roots` (over-approximation of the dynamic call graph).
    pub fn reachable(&self, roots: &[u8]) -> Vec<bool> {
        let n = self.code.len();
        let mut seen = vec![false; n];
        let mut st: Vec<u8> = roots.to_vec();
        while let Some(i) = st.pop() {
            let i = if i == 255 { self.root0.unwrap_or(0) } else { i };
            if (i as usize) >= n || seen[i as usize] {
                continue;
            }
            seen[i as usize] = true;
            let mut r = Vec::new();
            self.code[i as usize].refs(&mut r);
            st.extend(r);
        }
        seen
    }

    /// Like `solve`, restricted to the part of the program reachable from `roots`, so that a
    /// non-converging cycle elsewhere does not affect unrelated nodes.
    pub fn solve_from(&self, roots: &[u8]) -> Result<Sol, RefErr> {
        let reach = self.reachable(roots);
        let n = self.code.len();
        let mut sol = Sol { fx: vec![0u8; n], fb_cyclic: vec![false; n], fb_done: false };
        let has_fx = self.kinds.iter().any(|k| matches!(k, Kind::Fx | Kind::Fxj));
        let has_fb = self.kinds.iter().any(|k| matches!(k, Kind::Fb));
        if has_fb {
            // dynamic call graph: evaluate every body with calls answered by 0; valid because
            // programs with Fb nodes have no value-dependent control flow (envelope rule).
            let mut edges = vec![BTreeSet::new(); n];
            for i in 0..n {
                let mut r = Rf::new(self, &sol);
                r.edge_only = true;
                r.body_edges(i as u8);
                if let Some(e) = r.poison {
                    return Err(e);
                }
                edges[i] = r.edges.clone();
            }
            // reachability
            for i in 0..n {
                let mut seen = BTreeSet::new();
                let mut st: Vec<u8> = edges[i].iter().copied().collect();
                while let Some(j) = st.pop() {
                    if seen.insert(j) {
                        st.extend(edges[j as usize].iter().copied());
                    }
                }
                sol.fb_cyclic[i] = seen.contains(&(i as u8));
            }
            sol.fb_done = true;
        }
        if has_fx {
            // Kleene iteration. Values live in a finite domain (u8), bodies of the envelope are
            // monotone on the bit-set lattice, so this reaches the lfp; for non-monotone systems
            // (C15) it may oscillate: bound the iteration and report NoFixpoint.
            for _round in 0..600 {
                let mut changed = false;
                for i in 0..n {
                    if !matches!(self.kinds[i], Kind::Fx | Kind::Fxj) || !reach[i] {
                        continue;
                    }
                    let mut r = Rf::new(self, &sol);
                    let v = r.body(i as u8);
                    if let Some(e) = r.poison {
                        return Err(e);
                    }
                    let v = if self.kinds[i] == Kind::Fxj { v | sol.fx[i] } else { v };
                    if v != sol.fx[i] {
                        sol.fx[i] = v;
                        changed = true;
                    }
                }
                if !changed {
                    return Ok(sol);
                }
            }
            return Err(RefErr::NoFixpoint);
        }
        Ok(sol)
    }

    /// Does a request of node `n` (transitively, over the input-determined call graph) reach a
    /// function without cycle handling that lies on a call cycle?
    pub fn reaches_plain_cycle(&self, n: u8) -> bool {
        let cnt = self.code.len();
        let sol = Sol { fx: vec![0; cnt], fb_cyclic: vec![false; cnt], fb_done: false };
        let mut edges = vec![BTreeSet::new(); cnt];
        for i in 0..cnt {
            let mut r = Rf::new(self, &sol);
            r.edge_only = true;
            r.body_edges(i as u8);
            edges[i] = r.edges.clone();
        }
        let reach = |from: usize| {
            let mut seen = BTreeSet::new();
            let mut st: Vec<u8> = edges[from].iter().copied().collect();
            while let Some(j) = st.pop() {
                if seen.insert(j) {
                    st.extend(edges[j as usize].iter().copied());
                }
            }
            seen
        };
        let mut from_n = reach(n as usize);
        from_n.insert(n);
        from_n.iter().any(|m| {
            let plain = !matches!(self.kinds[*m as usize], Kind::Fx | Kind::Fxj | Kind::Fb);
            plain && reach(*m as usize).contains(m)
        })
    }

    /// Does the equation system of the Fx nodes have any fixpoint at all? (brute force over the
    /// value domain `dom` for every Fx node; used by C15 to select fixpoint-free systems)
    pub fn has_any_fixpoint(&self, dom: &[u8]) -> bool {
        let idx: Vec<usize> =
            (0..self.code.len()).filter(|i| matches!(self.kinds[*i], Kind::Fx | Kind::Fxj)).collect();
        let mut assign = vec![0usize; idx.len()];
        loop {
            let mut sol = Sol { fx: vec![0; self.code.len()], fb_cyclic: vec![false; self.code.len()], fb_done: false };
            for (k, i) in idx.iter().enumerate() {
                sol.fx[*i] = dom[assign[k]];
            }
            let mut ok = true;
            for i in &idx {
                let mut r = Rf::new(self, &sol);
                let v = r.body(*i as u8);
                if r.poison.is_some() || v != sol.fx[*i] {
                    ok = false;
                    break;
                }
            }
            if ok {
                return true;
            }
            // next assignment
            let mut k = 0;
            loop {
                if k == idx.len() {
                    return false;
                }
                assign[k] += 1;
                if assign[k] < dom.len() {
                    break;
                }
                assign[k] = 0;
                k += 1;
            }
        }
    }

    /// Reference for `accumulated::<Acc>(node n)`: pre-order, first visit only; a function's own
    /// values first (in push order), then its callees in first-call order.
    pub fn accumulated(&self, n: u8) -> Expect {
        let sol = match self.solve_from(&[n]) {
            Ok(s) => s,
            Err(_) => return Expect::Undefined,
        };
        let f = F::of_kind(self.kinds[n as usize]);
        let mut visited: BTreeSet<(F, u8, u8)> = BTreeSet::new();
        let mut out = Vec::new();
        let mut stack = vec![(f, n, 0u8)];
        while let Some(k) = stack.pop() {
            if !visited.insert(k) {
                continue;
            }
            let mut r = Rf::new(self, &sol);
            r.record = true;
            r.stack.push((k.0, k.1, k.2));
            match k.0 {
                F::Mk => {
                    r.mk_body(k.1);
                }
                F::Ev0 => {
                    r.body(self.root0.unwrap());
                }
                _ => {
                    r.body(k.1);
                }
            }
            if r.poison.is_some() {
                return Expect::Undefined;
            }
            out.extend(r.pushes.iter().copied());
            for c in r.children.iter().rev() {
                stack.push(*c);
            }
        }
        Expect::Vals(out)
    }
}

pub fn fld_of(s: &RStruct, w: u8) -> u8 {
    match w {
        0 => s.ident,
        1 => s.f,
        _ => s.g,
    }
}

pub fn on_ts_of(s: &RStruct, w: u8) -> u8 {
    if s.variant != 0 {
        return on_tsc_fn(s.f);
    }
    match w {
        0 => on_ts_fn(s.f),
        1 => on_ts2_fn(s.ident, s.g),
        _ => match (s.computed_first, s.spec) {
            (Some(c), _) => c,
            (None, Some(v)) => v,
            (None, None) => sp_fn(s.g),
        },
    }
}

pub struct Sol {
    pub fx: Vec<u8>,
    pub fb_cyclic: Vec<bool>,
    pub fb_done: bool,
}

/// One reference evaluation context.
pub struct Rf<'w> {
    w: &'w World,
    sol: &'w Sol,
    stack: Vec<(F, u8, u8)>,
    pub poison: Option<RefErr>,
    /// record direct call edges only, answer calls with 0
    edge_only: bool,
    edges: BTreeSet<u8>,
    /// record pushes and direct children of the outermost activation
    record: bool,
    pushes: Vec<u8>,
    children: Vec<(F, u8, u8)>,
    fuel: u32,
}

impl<'w> Rf<'w> {
    pub fn new(w: &'w World, sol: &'w Sol) -> Rf<'w> {
        Rf {
            w,
            sol,
            stack: Vec::new(),
            poison: None,
            edge_only: false,
            edges: BTreeSet::new(),
            record: false,
            pushes: Vec::new(),
            children: Vec::new(),
            fuel: 200_000,
        }
    }

    fn fail(&mut self, e: RefErr) -> u8 {
        if self.poison.is_none() {
            self.poison = Some(e);
        }
        0
    }

    fn body_edges(&mut self, n: u8) {
        self.stack.push((F::Ev, n, 0));
        if let Ex::Mk(_) = &self.w.code[n as usize] {
            self.mk_body(n);
        } else {
            let ex = &self.w.code[n as usize];
            eval(self, ex);
        }
        self.stack.pop();
    }

    /// Evaluate the body of node n in the current context (caller pushes the stack entry).
    fn body(&mut self, n: u8) -> u8 {
        if self.poison.is_some() {
            return 0;
        }
        if self.fuel == 0 {
            return self.fail(RefErr::Unsupported("fuel"));
        }
        self.fuel -= 1;
        let ex = &self.w.code[n as usize];
        eval(self, ex)
    }

    fn note_child(&mut self, k: (F, u8, u8)) {
        if self.record && self.stack.len() == 1 && !self.children.contains(&k) {
            self.children.push(k);
        }
    }

    /// Call function f on node n.
    fn call_f(&mut self, f: F, n: u8, salt: u8) -> u8 {
        if self.poison.is_some() {
            return 0;
        }
        let key = (f, if f == F::Ev0 { 0 } else { n }, salt);
        self.note_child(key);
        if self.edge_only {
            if f == F::Ev0 {
                self.edges.insert(self.w.root0.unwrap());
            } else {
                self.edges.insert(n);
            }
            return 0;
        }
        if self.record && self.stack.len() == 1 {
            // value needed for control flow only: evaluate in a fresh context
            let mut r = Rf::new(self.w, self.sol);
            let v = r.call_f(f, n, salt);
            if let Some(e) = r.poison {
                return self.fail(e);
            }
            return v;
        }
        match f {
            F::Fx | F::Fxj => {
                // recursion is cut at fixpoint nodes: they read the solved value
                self.sol.fx[n as usize]
            }
            F::Fb => {
                if !self.sol.fb_done {
                    return self.fail(RefErr::Unsupported("fb without analysis"));
                }
                if self.sol.fb_cyclic[n as usize] {
                    fb_value(n)
                } else {
                    self.stack.push(key);
                    let v = self.body(n);
                    self.stack.pop();
                    v
                }
            }
            F::Mk => self.mk(n).structs.len() as u8,
            _ => {
                if self.stack.contains(&key) {
                    return self.fail(RefErr::PlainCycle);
                }
                self.stack.push(key);
                let body_node = if f == F::Ev0 { self.w.root0.unwrap() } else { n };
                let v = self.body(body_node).wrapping_add(salt);
                self.stack.pop();
                v
            }
        }
    }

    pub fn mk(&mut self, n: u8) -> RMk {
        if self.poison.is_some() {
            return RMk::default();
        }
        let key = (F::Mk, n, 0);
        self.note_child(key);
        if self.edge_only {
            self.edges.insert(n);
            return RMk::default();
        }
        if self.record && self.stack.len() == 1 {
            let mut r = Rf::new(self.w, self.sol);
            let m = r.mk(n);
            if let Some(e) = r.poison {
                self.fail(e);
            }
            return m;
        }
        if self.stack.contains(&key) {
            self.fail(RefErr::PlainCycle);
            return RMk::default();
        }
        self.stack.push(key);
        let m = self.mk_body(n);
        self.stack.pop();
        m
    }

    fn mk_body(&mut self, n: u8) -> RMk {
        let Ex::Mk(ents) = &self.w.code[n as usize] else {
            self.fail(RefErr::Unsupported("Mk node without Mk code"));
            return RMk::default();
        };
        let mut out = RMk::default();
        for e in ents {
            if eval(self, &e.cond) == 0 {
                continue;
            }
            let ident = eval(self, &e.ident);
            let f = eval(self, &e.f);
            let g = eval(self, &e.g);
            let mut s = RStruct { variant: e.variant, ident, f, g, spec: None, computed_first: None };
            for p in &e.post {
                match p {
                    Post::Spec { cond, val } => {
                        if eval(self, cond) != 0 {
                            let v = eval(self, val);
                            if e.variant == 0 {
                                if s.computed_first.is_some() {
                                    // a value computed earlier in the same execution is kept
                                } else if s.spec.is_some() {
                                    self.fail(RefErr::SpecifyTwice);
                                } else {
                                    s.spec = Some(v);
                                }
                            }
                        }
                    }
                    Post::CallSp => {
                        if e.variant != 0 {
                            out.aux.push(on_tsc_fn(s.f));
                        } else {
                            match (s.computed_first, s.spec) {
                                (Some(c), _) => out.aux.push(c),
                                (None, Some(v)) => out.aux.push(v),
                                (None, None) => {
                                    let c = sp_fn(s.g);
                                    s.computed_first = Some(c);
                                    out.aux.push(c);
                                }
                            }
                        }
                    }
                    Post::SpecPrev { .. } => {}
                    Post::SpecOther { cond, node, idx, val } => {
                        if eval(self, cond) != 0 {
                            let _ = eval(self, val);
                            let other = self.mk(*node);
                            if let Some(o) = other.structs.get(*idx as usize) {
                                if o.variant == 0 {
                                    self.fail(RefErr::SpecifyForeign);
                                }
                            }
                        }
                    }
                }
            }
            out.structs.push(s);
        }
        out
    }
}

impl Be for Rf<'_> {
    fn cell(&mut self, c: u8) -> u8 {
        self.w.cells[c as usize]
    }
    fn ext(&mut self, i: u8) -> u8 {
        self.w.ext[i as usize]
    }
    fn call(&mut self, n: u8) -> u8 {
        let f = F::of_kind(self.w.kinds[n as usize]);
        self.call_f(f, n, 0)
    }
    fn call2(&mut self, n: u8, salt: u8) -> u8 {
        self.call_f(F::Ev2, n, salt)
    }
    fn call0(&mut self) -> u8 {
        self.call_f(F::Ev0, 0, 0)
    }
    fn push(&mut self, v: u8) {
        if self.record && self.stack.len() == 1 {
            self.pushes.push(v);
        }
    }
    fn fld(&mut self, n: u8, i: u8, w: u8) -> u8 {
        let m = self.mk(n);
        match m.structs.get(i as usize) {
            Some(s) => fld_of(s, w),
            None => ABSENT,
        }
    }
    fn on_ts(&mut self, n: u8, i: u8, w: u8) -> u8 {
        let m = self.mk(n);
        match m.structs.get(i as usize) {
            Some(s) => on_ts_of(s, w),
            None => ABSENT,
        }
    }
    fn len(&mut self, n: u8) -> u8 {
        self.mk(n).structs.len() as u8
    }
    fn int(&mut self, _ty: u8, data: u8) -> u8 {
        data
    }
    fn int_fn(&mut self, ty: u8, data: u8) -> u8 {
        on_is_fn(ty, data)
    }
}
