//! The value type `V` (owns a heap allocation, hand-written PartialEq/Hash that are user-code
//! callback points) and the process-global callback-point counter / panic injector (C22).

use std::hash::{Hash, Hasher};
use std::sync::atomic::{AtomicBool, AtomicI64, AtomicU64, Ordering::SeqCst};

/// Kinds of user-code callback points salsa can reach.
#[derive(Clone, Copy, Debug, PartialEq, Eq, PartialOrd, Ord, serde::Serialize, serde::Deserialize)]
pub enum P {
    BodyEntry,
    BodyMid,
    BodyExit,
    CycleInitial,
    CycleFn,
    CycleResult,
    EqV,
    HashD,
    EqD,
    Event,
    HeapSize,
    /// comparison of a struct creator's result (backdating)
    EqOut,
}
pub const ALL_P: [P; 12] = [
    P::BodyEntry,
    P::BodyMid,
    P::BodyExit,
    P::CycleInitial,
    P::CycleFn,
    P::CycleResult,
    P::EqV,
    P::HashD,
    P::EqD,
    P::Event,
    P::HeapSize,
    P::EqOut,
];

/// Payload of an injected panic.
#[derive(Debug, Clone, Copy, PartialEq, Eq)]
pub struct Marker(pub u64, pub P);

static COUNT: AtomicU64 = AtomicU64::new(0);
static TARGET: AtomicI64 = AtomicI64::new(-1);
static FIRED: AtomicBool = AtomicBool::new(false);
static ENABLED: AtomicBool = AtomicBool::new(false);
/// bit i set <=> kind i was reached since the last reset
static KINDS_SEEN: AtomicU64 = AtomicU64::new(0);
/// kind of the point at which the injection fired (as index into ALL_P), or 255
static FIRED_KIND: AtomicU64 = AtomicU64::new(255);
/// bitmask of point kinds that are eligible for counting (default: all)
static KIND_MASK: AtomicU64 = AtomicU64::new(u64::MAX);

pub mod inj {
    use super::*;

    /// Start counting callback points; `target` = index of the point that panics (or -1).
    pub fn arm(target: i64) {
        COUNT.store(0, SeqCst);
        TARGET.store(target, SeqCst);
        FIRED.store(false, SeqCst);
        FIRED_KIND.store(255, SeqCst);
        KINDS_SEEN.store(0, SeqCst);
        ENABLED.store(true, SeqCst);
    }
    /// Stop counting and injecting. Returns number of points passed.
    pub fn disarm() -> u64 {
        ENABLED.store(false, SeqCst);
        TARGET.store(-1, SeqCst);
        COUNT.load(SeqCst)
    }
    pub fn set_kind_mask(mask: u64) {
        KIND_MASK.store(mask, SeqCst);
    }
    pub fn count() -> u64 {
        COUNT.load(SeqCst)
    }
    pub fn fired() -> bool {
        FIRED.load(SeqCst)
    }
    pub fn fired_kind() -> Option<P> {
        let k = FIRED_KIND.load(SeqCst);
        if k == 255 { None } else { Some(ALL_P[k as usize]) }
    }
    pub fn kinds_seen() -> u64 {
        KINDS_SEEN.load(SeqCst)
    }
    /// Stop injecting but keep counting (used after the panic has fired).
    pub fn enabled() -> bool {
        ENABLED.load(SeqCst)
    }
}

#[inline]
pub fn point(kind: P) {
    if !ENABLED.load(SeqCst) {
        return;
    }
    let bit = 1u64 << (kind as u64);
    if KIND_MASK.load(SeqCst) & bit == 0 {
        return;
    }
    // Do not inject while already unwinding: a second panic would abort the process, and a
    // real-world `PartialEq` called from a destructor during unwinding is out of scope.
    if std::thread::panicking() {
        return;
    }
    KINDS_SEEN.fetch_or(bit, SeqCst);
    let i = COUNT.fetch_add(1, SeqCst);
    if TARGET.load(SeqCst) == i as i64 {
        FIRED.store(true, SeqCst);
        FIRED_KIND.store(kind as u64, SeqCst);
        std::panic::panic_any(Marker(i, kind));
    }
}

/// Result type of all harness tracked functions: a small value that owns a heap allocation.
#[derive(Debug, salsa::SalsaValue)]
#[cfg_attr(feature = "persist", derive(serde::Serialize, serde::Deserialize))]
pub struct V {
    pub x: u8,
    heap: Box<[u8; 8]>,
}

const CANARY: u8 = 0xA5;

impl V {
    #[inline]
    pub fn new(x: u8) -> V {
        V { x, heap: Box::new([x, CANARY, x, CANARY, x, CANARY, x, CANARY]) }
    }
    /// Re-read the heap block: must still hold the pattern written at construction (C23b).
    #[inline]
    pub fn intact(&self) -> bool {
        let h = &*self.heap;
        h[0] == self.x
            && h[2] == self.x
            && h[4] == self.x
            && h[6] == self.x
            && h[1] == CANARY
            && h[3] == CANARY
            && h[5] == CANARY
            && h[7] == CANARY
    }
}

impl Clone for V {
    fn clone(&self) -> V {
        V::new(self.x)
    }
}

impl PartialEq for V {
    fn eq(&self, other: &V) -> bool {
        point(P::EqV);
        self.x == other.x
    }
}
impl Eq for V {}

/// Data of interned structs / identity fields of tracked structs: hashing and equality are
/// callback points. The hash is constant on purpose: all values land in the same interner shard
/// and the same hash bucket chain, so that slot reuse and hash collisions are the common case
/// and do not depend on the number of cores.
#[derive(Debug, Clone, salsa::SalsaValue)]
#[cfg_attr(feature = "persist", derive(serde::Serialize, serde::Deserialize))]
pub struct D(pub u8);

impl PartialEq for D {
    fn eq(&self, other: &D) -> bool {
        point(P::EqD);
        self.0 == other.0
    }
}
impl Eq for D {}
impl Hash for D {
    fn hash<H: Hasher>(&self, state: &mut H) {
        point(P::HashD);
        state.write_u8(0);
    }
}

/// Identity data with an honest hash (used where distinct shards / buckets are wanted).
#[derive(Debug, Clone, PartialEq, Eq, Hash, salsa::SalsaValue)]
#[cfg_attr(feature = "persist", derive(serde::Serialize, serde::Deserialize))]
pub struct DH(pub u8);

/// C23: references returned by tracked functions and field getters are retained (as raw
/// pointers) until the database is next borrowed mutably and then re-read: each must still hold
/// the value it had when it was returned.
pub mod retain {
    use super::V;
    use std::cell::{Cell, RefCell};

    thread_local! {
        static ON: Cell<bool> = const { Cell::new(false) };
        static R: RefCell<Vec<(*const V, u8)>> = const { RefCell::new(Vec::new()) };
        static TOTAL: Cell<u64> = const { Cell::new(0) };
    }

    pub fn enable(on: bool) {
        ON.with(|c| c.set(on));
        R.with(|r| r.borrow_mut().clear());
    }

    #[inline]
    pub fn note(v: &V) {
        if ON.with(|c| c.get()) {
            R.with(|r| {
                let mut r = r.borrow_mut();
                // bounded: cycles re-read the same few memos many times
                if r.len() < 4096 {
                    r.push((v as *const V, v.x));
                }
            });
        }
    }

    /// Re-read every retained reference; clears the list. Returns the number re-read.
    pub fn revalidate() -> Result<usize, String> {
        let list: Vec<(*const V, u8)> = R.with(|r| std::mem::take(&mut *r.borrow_mut()));
        let n = list.len();
        TOTAL.with(|c| c.set(c.get() + n as u64));
        for (p, x) in list {
            // SAFETY (intended): the reference was returned with the lifetime of a shared borrow
            // of the database and no mutable borrow happened since. The inline byte is read first;
            // the heap block only if the pointer does not look like allocator poison.
            let now = unsafe { std::ptr::addr_of!((*p).x).read_volatile() };
            if now != x {
                return Err(format!("a reference returned with value {x} now reads {now:#x} (storage at {p:?} was freed or overwritten before the next mutable borrow of the database)"));
            }
            let hp = unsafe { (std::ptr::addr_of!((*p).heap) as *const usize).read_volatile() };
            if hp == 0 || hp == usize::from_ne_bytes([0xDD; 8]) || hp == usize::from_ne_bytes([0xCD; 8]) {
                return Err(format!("a reference returned with value {x}: its heap pointer now reads {hp:#x}"));
            }
            if !unsafe { (*p).intact() } {
                return Err(format!("a reference returned with value {x}: its heap block no longer holds the pattern written at construction"));
            }
        }
        Ok(n)
    }

    pub fn total_revalidated() -> u64 {
        TOTAL.with(|c| c.get())
    }
}
