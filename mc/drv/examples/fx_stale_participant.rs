// Stand-alone reproduction (no harness code) of known finding C12:stale-cycle-participant-memo-validated.
// Node 1 reaches the cycle head (node 0) only through node 2, which is still executing when node 1
// completes, and the cycle converges after two iterations: node 1's flattened dependencies miss
// node 0's input. After node 0's input changes, node 1's memo is validated unchanged.
use std::sync::OnceLock;

use salsa::Setter;

#[salsa::input]
struct Node {
    op: u8,
}

static NODES: OnceLock<[Node; 3]> = OnceLock::new();

fn init(_db: &dyn salsa::Database, _id: salsa::Id, _n: Node) -> u32 {
    0
}

#[salsa::tracked(returns(copy), cycle_initial = init)]
fn f(db: &dyn salsa::Database, n: Node) -> u32 {
    let [a, b, c] = *NODES.get().unwrap();
    match *n.op(db) {
        0 => f(db, a) & f(db, c), // node 0, initially
        1 => f(db, b) | f(db, c), // node 1
        2 => f(db, a) | f(db, b), // node 2
        _ => 2,                   // node 0 after the write
    }
}

fn main() {
    let mut db = salsa::DatabaseImpl::new();
    let nodes = [Node::new(&db, 0), Node::new(&db, 1), Node::new(&db, 2)];
    NODES.set(nodes).ok().unwrap();
    let [a, b, _c] = nodes;
    println!("first rev:   f(a)={}", f(&db, a));
    a.set_op(&mut db).to(3);
    let (va, vb) = (f(&db, a), f(&db, b));
    println!("incremental: f(a)={va} f(b)={vb}   (from scratch: f(b) = f(b) | f(c) = 2)");
    std::process::exit(if vb == 2 { 0 } else { 1 });
}
