// Stand-alone reproduction (no harness code) of known finding
// C22:tracked-struct-lock-state-after-unwind.
// A panic in user code that salsa runs while it holds the write lock of a tracked struct (here:
// the PartialEq of a tracked field during re-creation) leaves the struct locked: once the panic
// no longer occurs, every later request that re-creates the struct panics with
// "two concurrent writers to Id(..), should not be possible".
use std::sync::atomic::{AtomicBool, Ordering};

use salsa::Setter;

static PANIC_IN_EQ: AtomicBool = AtomicBool::new(false);

#[derive(Clone, Debug)]
struct Field(u32);
impl PartialEq for Field {
    fn eq(&self, other: &Self) -> bool {
        if PANIC_IN_EQ.load(Ordering::SeqCst) {
            panic!("user PartialEq panics");
        }
        self.0 == other.0
    }
}

#[salsa::input]
struct Inp {
    v: u32,
}

#[salsa::tracked]
struct T<'db> {
    #[tracked]
    f: Field,
}

#[salsa::tracked(returns(copy))]
fn mk(db: &dyn salsa::Database, i: Inp) -> T<'_> {
    T::new(db, Field(*i.v(db)))
}

#[salsa::tracked(returns(copy))]
fn read(db: &dyn salsa::Database, i: Inp) -> u32 {
    mk(db, i).f(db).0
}

fn main() {
    std::panic::set_hook(Box::new(|_| {}));
    let mut db = salsa::DatabaseImpl::new();
    let i = Inp::new(&db, 1);
    println!("rev 1: read = {}", read(&db, i));
    i.set_v(&mut db).to(2);
    PANIC_IN_EQ.store(true, Ordering::SeqCst);
    let r = std::panic::catch_unwind(std::panic::AssertUnwindSafe(|| read(&db, i)));
    println!("rev 2 with a panicking PartialEq: {:?}", r.map_err(|_| "panicked (expected)"));
    PANIC_IN_EQ.store(false, Ordering::SeqCst);
    let r = std::panic::catch_unwind(std::panic::AssertUnwindSafe(|| read(&db, i)));
    println!("rev 2, panic gone: {:?}", r.as_ref().map_err(|e| e.downcast_ref::<String>().cloned().unwrap_or_default()));
    i.set_v(&mut db).to(3);
    let r2 = std::panic::catch_unwind(std::panic::AssertUnwindSafe(|| read(&db, i)));
    println!("rev 3: {:?}   (a fresh database answers 3)", r2.as_ref().map_err(|e| e.downcast_ref::<String>().cloned().unwrap_or_default()));
    std::process::exit(if matches!(r, Ok(2)) && matches!(r2, Ok(3)) { 0 } else { 1 });
}
