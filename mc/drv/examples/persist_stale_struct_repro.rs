// Stand-alone reproduction (needs --features persist) of known finding
// C26:restored-creator-deletes-validated-struct.
#[cfg(feature = "persist")]
mod repro {
    use salsa::Setter;
    use salsa::plumbing::ZalsaDatabase;

    #[salsa::input(persist)]
    pub struct Inp {
        #[returns(copy)]
        pub v: u32,
    }

    #[salsa::tracked(persist)]
    pub struct T<'db> {
        #[returns(copy)]
        pub ident: u32,
        #[tracked]
        #[returns(copy)]
        pub f: u32,
    }

    #[salsa::tracked(returns(copy), persist)]
    pub fn mk(db: &dyn salsa::Database, i: Inp) -> T<'_> {
        let a = T::new(db, i.v(db), 7);
        let _b = T::new(db, 1, 8);
        a
    }

    #[salsa::tracked(returns(copy), persist)]
    pub fn on_t<'db>(db: &'db dyn salsa::Database, t: T<'db>) -> u32 {
        t.f(db) + 1
    }

    pub fn main() {
        let mut db = salsa::DatabaseImpl::new();
        let i = Inp::new(&db, 0);
        println!("original: ident = {}", mk(&db, i).ident(&db));
        println!("original: on_t = {}", on_t(&db, mk(&db, i)));
        i.set_v(&mut db).to(1);
        let json = serde_json::to_string_pretty(&<dyn salsa::Database>::as_serialize(&mut db)).unwrap();
        if std::env::var("SHOW").is_ok() {
            println!("{json}");
        }
        let mut db2 = salsa::DatabaseImpl::new();
        <dyn salsa::Database>::deserialize(&mut db2, &mut serde_json::Deserializer::from_str(&json)).unwrap();
        let i2 = Inp::ingredient(&db2).entries(db2.zalsa()).next().unwrap().as_struct();
        let r = std::panic::catch_unwind(std::panic::AssertUnwindSafe(|| mk(&db2, i2).ident(&db2)));
        match r {
            Ok(v) => {
                println!("restored: ident = {v} (from scratch: 1)");
                std::process::exit(if v == 1 { 0 } else { 1 });
            }
            Err(e) => {
                println!("restored: PANIC {:?}", e.downcast_ref::<String>().cloned().or_else(|| e.downcast_ref::<&str>().map(|s| s.to_string())));
                std::process::exit(1);
            }
        }
    }
}

fn main() {
    #[cfg(feature = "persist")]
    repro::main();
    #[cfg(not(feature = "persist"))]
    println!("build with --features persist");
}
