// Stand-alone reproduction (no harness code): fixpoint participants keep a stale value after
// the cycle head stops being cyclic.
use salsa::Setter;

#[salsa::input]
struct Inp {
    on: bool,
    mask: u32,
}

fn init(_db: &dyn salsa::Database, _id: salsa::Id, _i: Inp) -> u32 {
    0
}

#[salsa::tracked(returns(copy), cycle_initial = init)]
fn a(db: &dyn salsa::Database, i: Inp) -> u32 {
    if *i.on(db) { *i.mask(db) } else { a(db, i) & c(db, i) }
}
#[salsa::tracked(returns(copy), cycle_initial = init)]
fn b(db: &dyn salsa::Database, i: Inp) -> u32 {
    b(db, i) | c(db, i)
}
#[salsa::tracked(returns(copy), cycle_initial = init)]
fn c(db: &dyn salsa::Database, i: Inp) -> u32 {
    a(db, i) | b(db, i)
}

fn main() {
    let db = salsa::DatabaseImpl::new();
    let i = Inp::new(&db, true, 2);
    println!("fresh:       a={} b={} c={}", a(&db, i), b(&db, i), c(&db, i));

    let mut db = salsa::DatabaseImpl::new();
    let i = Inp::new(&db, false, 2);
    println!("first rev:   a={}", a(&db, i));
    i.set_on(&mut db).to(true);
    println!("incremental: a={} b={} c={}", a(&db, i), b(&db, i), c(&db, i));
}
