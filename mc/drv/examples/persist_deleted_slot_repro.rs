// Stand-alone reproduction (needs --features persist) of known finding
// C26:deleted-struct-slot-breaks-deserialization: a database in which a tracked struct was deleted
// while a struct in a later slot of the same page is still alive cannot be deserialized
// ("values are serialized in allocation order").
#[cfg(feature = "persist")]
mod repro {
    use salsa::Setter;

    #[salsa::input(persist)]
    pub struct Inp {
        #[returns(copy)]
        pub first: bool,
    }

    #[salsa::tracked(persist)]
    pub struct T<'db> {
        #[returns(copy)]
        pub ident: u32,
    }

    #[salsa::tracked(persist)]
    pub fn mk(db: &dyn salsa::Database, i: Inp) -> Vec<T<'_>> {
        let mut v = Vec::new();
        if i.first(db) {
            v.push(T::new(db, 1));
        }
        v.push(T::new(db, 2));
        v
    }

    pub fn main() {
        let mut db = salsa::DatabaseImpl::new();
        let i = Inp::new(&db, true);
        println!("rev 1: {} structs", mk(&db, i).len());
        i.set_first(&mut db).to(false);
        println!("rev 2: {} structs (the first one was deleted)", mk(&db, i).len());
        let json = serde_json::to_string(&<dyn salsa::Database>::as_serialize(&mut db)).unwrap();
        let mut db2 = salsa::DatabaseImpl::new();
        let r = std::panic::catch_unwind(std::panic::AssertUnwindSafe(|| {
            <dyn salsa::Database>::deserialize(&mut db2, &mut serde_json::Deserializer::from_str(&json)).map_err(|e| e.to_string())
        }));
        match r {
            Ok(Ok(())) => {
                println!("deserialized fine");
                std::process::exit(0)
            }
            Ok(Err(e)) => {
                println!("deserialization error: {e}");
                std::process::exit(1)
            }
            Err(e) => {
                println!("deserialization PANIC: {:?}", e.downcast_ref::<String>().cloned());
                std::process::exit(1)
            }
        }
    }
}

fn main() {
    #[cfg(feature = "persist")]
    repro::main();
    #[cfg(not(feature = "persist"))]
    println!("build with --features persist");
}
