// Stand-alone reproduction (no harness code) of known finding
// C10:specified-to-computed-switch-not-propagated.
// When the creator stops specifying a value, the specifiable function is computed instead, but its
// new memo's `changed_at` is derived from its own inputs only, so a dependent that was validated
// when the value was still specified is considered unchanged and keeps the stale result.
use salsa::Setter;

#[salsa::input]
struct Inp {
    spec: bool,
    g: u32,
}

#[salsa::tracked]
struct T<'db> {
    #[tracked]
    g: u32,
}

#[salsa::tracked(returns(copy))]
fn mk(db: &dyn salsa::Database, i: Inp) -> T<'_> {
    let t = T::new(db, *i.g(db));
    if *i.spec(db) {
        sp::specify(db, t, 33);
    }
    t
}

#[salsa::tracked(returns(copy), specify)]
fn sp<'db>(db: &'db dyn salsa::Database, t: T<'db>) -> u32 {
    *t.g(db) + 64
}

#[salsa::tracked(returns(copy))]
fn reader(db: &dyn salsa::Database, i: Inp) -> u32 {
    let t = mk(db, i);
    sp(db, t) + 1
}

fn main() {
    let mut db = salsa::DatabaseImpl::new();
    let i = Inp::new(&db, true, 1);
    println!("rev 1: reader = {}", reader(&db, i));
    i.set_spec(&mut db).to(false);
    let direct = sp(&db, mk(&db, i));
    let r = reader(&db, i);
    println!("rev 2: sp = {direct}, reader = {r}   (from scratch: sp = 65, reader = 66)");
    std::process::exit(if r == 66 { 0 } else { 1 });
}
