// Stand-alone reproduction (no harness code): cycle_result fallback vs. incremental history.
use salsa::Setter;

#[salsa::input]
struct Inp {
    v: u32,
}
#[salsa::input]
struct Other {
    v: u32,
}

fn res_a(_db: &dyn salsa::Database, _id: salsa::Id, _i: Inp) -> u32 {
    0xF0
}
fn res_b(_db: &dyn salsa::Database, _id: salsa::Id, _i: Inp) -> u32 {
    0xF1
}

#[salsa::tracked(returns(copy), cycle_result = res_a)]
fn a(db: &dyn salsa::Database, i: Inp) -> u32 {
    let _ = i.v(db);
    b(db, i) | 2
}
#[salsa::tracked(returns(copy), cycle_result = res_b)]
fn b(db: &dyn salsa::Database, i: Inp) -> u32 {
    let _ = i.v(db);
    a(db, i) | 2
}
#[salsa::tracked(returns(copy))]
fn top(db: &dyn salsa::Database, i: Inp) -> u32 {
    let _ = i.v(db);
    a(db, i) + 1
}

#[salsa::db]
#[derive(Clone)]
struct LogDb {
    storage: salsa::Storage<Self>,
}
#[salsa::db]
impl salsa::Database for LogDb {}
impl LogDb {
    fn new() -> Self {
        LogDb {
            storage: salsa::Storage::new(Some(Box::new(|e: salsa::Event| match e.kind {
                salsa::EventKind::WillCheckCancellation => {}
                k => println!("    event: {k:?}"),
            }))),
        }
    }
}

fn main() {
    // fresh database, ask a then b
    let db = salsa::DatabaseImpl::new();
    let i = Inp::new(&db, 0);
    println!("fresh:       a={:#x} b={:#x}", a(&db, i), b(&db, i));

    // incremental: ask top, bump the revision by writing an unrelated input, ask a then b
    let mut db = LogDb::new();
    let i = Inp::new(&db, 0);
    let o = Other::new(&db, 0);
    println!("first rev:   top={:#x}", top(&db, i));
    o.set_v(&mut db).to(1);
    println!("-- new revision");
    let va = a(&db, i);
    println!("incremental: a={va:#x}");
    let vb = b(&db, i);
    println!("incremental: b={vb:#x}");
}
