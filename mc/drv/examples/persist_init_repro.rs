// Stand-alone reproduction (no harness code; needs --features persist) of known finding
// C26:restored-dependency-on-uninitialised-function.
// After deserialization, a restored memo of `outer` has a dependency edge on `inner`. When an
// input changes and `outer` is verified before `inner` was ever called on the new database,
// `maybe_changed_after` reaches `inner`'s ingredient, which panics
// "tracked function ingredients cannot be accessed before calling `init`".
#[cfg(feature = "persist")]
mod repro {
    use salsa::Setter;
    use salsa::plumbing::ZalsaDatabase;

    #[salsa::input(persist)]
    pub struct Inp {
        #[returns(copy)]
        pub v: u32,
    }

    #[salsa::tracked(returns(copy), persist)]
    pub fn inner(db: &dyn salsa::Database, i: Inp) -> u32 {
        i.v(db) / 2
    }

    #[salsa::tracked(returns(copy), persist)]
    pub fn outer(db: &dyn salsa::Database, i: Inp) -> u32 {
        inner(db, i) + 1
    }

    pub fn main() {
        let mut db = salsa::DatabaseImpl::new();
        let i = Inp::new(&db, 4);
        println!("original: outer = {}", outer(&db, i));
        let json = serde_json::to_string(&<dyn salsa::Database>::as_serialize(&mut db)).unwrap();

        let mut db2 = salsa::DatabaseImpl::new();
        <dyn salsa::Database>::deserialize(&mut db2, &mut serde_json::Deserializer::from_str(&json)).unwrap();
        let i2 = Inp::ingredient(&db2).entries(db2.zalsa()).next().unwrap().as_struct();
        println!("restored: outer = {}", outer(&db2, i2));
        i2.set_v(&mut db2).to(5);
        // from scratch: inner = 2, outer = 3
        let r = std::panic::catch_unwind(std::panic::AssertUnwindSafe(|| outer(&db2, i2)));
        match r {
            Ok(v) => {
                println!("after a write: outer = {v}");
                std::process::exit(if v == 3 { 0 } else { 1 });
            }
            Err(e) => {
                println!("after a write: PANIC {:?}", e.downcast_ref::<String>().cloned().or_else(|| e.downcast_ref::<&str>().map(|s| s.to_string())));
                std::process::exit(1);
            }
        }
    }
}

fn main() {
    #[cfg(feature = "persist")]
    repro::main();
    #[cfg(not(feature = "persist"))]
    println!("build with --features persist");
}
