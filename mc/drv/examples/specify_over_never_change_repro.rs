// Stand-alone reproduction (no harness code) of known finding
// C10:computed-to-specified-switch-not-propagated.
// A tracked struct created before its creator reads anything changeable has NEVER_CHANGE
// durability, and so has the computed memo of a specifiable function that reads only that struct.
// Reads of never-change memos are not recorded as dependencies. When the creator, in a later
// revision, starts specifying a value for that key, a function that called the specifiable
// function earlier has no edge to it, is validated as unchanged and keeps the computed value,
// while a direct request (and a fresh database) returns the specified value: the result depends
// on the path and on the history.
use salsa::Setter;

#[salsa::input]
struct Flag {
    v: bool,
}

#[salsa::tracked]
struct Node<'db> {
    #[tracked]
    g: u32,
}

#[salsa::tracked(returns(copy), specify)]
fn weight<'db>(db: &'db dyn salsa::Database, n: Node<'db>) -> u32 {
    *n.g(db) + 1000
}

#[salsa::tracked(returns(copy))]
fn creator(db: &dyn salsa::Database, f: Flag) -> Node<'_> {
    // created before any input is read
    let n = Node::new(db, 1);
    if *f.v(db) {
        weight::specify(db, n, 7);
    }
    n
}

#[salsa::tracked(returns(copy))]
fn outer(db: &dyn salsa::Database, f: Flag) -> u32 {
    weight(db, creator(db, f))
}

fn main() {
    let mut db = salsa::DatabaseImpl::new();
    let f = Flag::new(&db, false);
    println!("rev 1: outer = {}   (computed: 1001)", outer(&db, f));
    f.set_v(&mut db).to(true);
    let o = outer(&db, f);
    let direct = weight(&db, creator(&db, f));
    println!("rev 2: outer = {o}, weight(creator) = {direct}   (from scratch: both 7)");
    std::process::exit(if o == 7 && direct == 7 { 0 } else { 1 });
}
