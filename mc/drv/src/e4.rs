//! E4 `edgex`: exhaustive enumeration of dependency-edge sequences over the boundary classes of
//! the compact encoding (C25), through verification hook H1.

use salsa::verif::{self, Decoded, ExtraSpec, OriginKind, RawEdge};
use serde_json::json;

use crate::e1::WorkerOut;
use crate::evid::Viol;

pub fn edge_alphabet() -> Vec<RawEdge> {
    let ingredients = [0u32, 1, verif::PACKED_INGREDIENT_MAX - 1, verif::PACKED_INGREDIENT_MAX, verif::PACKED_INGREDIENT_MAX + 1, 0x7FFF_FFFF];
    let indices = [0u32, 1, 1 << 31, salsa::Id::MAX_U32 - 1];
    let generations = [0u32, 1, verif::PACKED_GENERATION_MAX, verif::PACKED_GENERATION_MAX + 1, u32::MAX];
    let mut v = Vec::new();
    for out in [false, true] {
        for ing in ingredients {
            for idx in indices {
                for g in generations {
                    v.push((out, ing, idx, g));
                }
            }
        }
    }
    v
}

pub fn extra_specs() -> Vec<ExtraSpec> {
    vec![
        ExtraSpec::default(),
        ExtraSpec { tracked_struct_ids: 2, ..Default::default() },
        ExtraSpec { cycle_head: true, ..Default::default() },
        ExtraSpec { force: true, ..Default::default() },
        ExtraSpec { tracked_struct_ids: 1, cycle_head: true, force: false },
    ]
}

fn expect_extra(spec: &ExtraSpec) -> Option<(usize, usize)> {
    if spec.tracked_struct_ids == 0 && !spec.cycle_head && !spec.force {
        None
    } else {
        Some((spec.tracked_struct_ids as usize, spec.cycle_head as usize))
    }
}

fn check_decoded(d: &Decoded, kind: OriginKind, edges: &[RawEdge], extra: Option<(usize, usize)>, converged: bool, what: &str) -> Result<(), String> {
    if d.untracked != (kind == OriginKind::DerivedUntracked) {
        return Err(format!("{what}: origin kind changed"));
    }
    if d.edges != edges {
        return Err(format!("{what}: decoded edges {:?} differ from the stored sequence {:?}", d.edges, edges));
    }
    let mut rev = edges.to_vec();
    rev.reverse();
    if d.reversed != rev {
        return Err(format!("{what}: reverse iteration yields {:?}", d.reversed));
    }
    let ins: Vec<(u32, u32, u32)> = edges.iter().filter(|e| !e.0).map(|e| (e.1, e.2, e.3)).collect();
    let outs: Vec<(u32, u32, u32)> = edges.iter().filter(|e| e.0).map(|e| (e.1, e.2, e.3)).collect();
    if d.inputs != ins || d.outputs != outs {
        return Err(format!("{what}: input/output views {:?} / {:?} do not partition the edges {:?}", d.inputs, d.outputs, edges));
    }
    match (&d.extra, extra) {
        (None, None) => {}
        (Some(v), Some((ids, heads))) => {
            if v.tracked_struct_ids.len() != ids || v.cycle_heads != heads || v.cycle_converged != converged || !v.accumulated_is_empty {
                return Err(format!("{what}: extra data {v:?} differs from what was attached (ids {ids}, heads {heads}, converged {converged})"));
            }
        }
        (Some(v), None) => {
            // extra storage may be present but must be empty
            if !v.tracked_struct_ids.is_empty() || v.cycle_heads != 0 || v.cycle_converged != converged {
                return Err(format!("{what}: unexpected extra data {v:?}"));
            }
        }
        (None, Some(_)) => return Err(format!("{what}: extra data lost")),
    }
    Ok(())
}

/// All checks for one (kind, sequence, extra) triple. Returns the number of operations applied.
pub fn check_case(kind: OriginKind, edges: &[RawEdge], spec: ExtraSpec) -> Result<u64, String> {
    let mut ops = 1;
    let stored = verif::build(kind, edges, spec);
    let d = stored.decode();
    let extra = expect_extra(&spec);
    check_decoded(&d, kind, edges, extra, false, "after construction")?;
    let packable = edges.iter().all(|e| !e.0 && e.1 <= verif::PACKED_INGREDIENT_MAX && e.3 <= verif::PACKED_GENERATION_MAX);
    if d.packed && !packable {
        return Err(format!("compact layout used for edges that do not fit it: {edges:?}"));
    }
    // attaching extra data later must not disturb the edges
    let mut s2 = verif::build(kind, edges, spec);
    s2.set_cycle_converged();
    ops += 1;
    let d2 = s2.decode();
    check_decoded(&d2, kind, edges, extra.or(Some((0, 0))), true, "after attaching extra data")?;
    #[cfg(not(feature = "persist"))]
    {
        // clearing the edges keeps the extra data
        s2.clear_edges();
        ops += 1;
        let d3 = s2.decode();
        check_decoded(&d3, kind, &[], extra.or(Some((0, 0))), true, "after clearing the edges")?;
        let mut s3 = verif::build(kind, edges, spec);
        s3.clear_edges();
        ops += 1;
        check_decoded(&s3.decode(), kind, &[], extra, false, "after clearing the edges (no later extra)")?;
    }
    #[cfg(feature = "persist")]
    {
        let mut buf = Vec::new();
        let mut ser = serde_json::Serializer::new(&mut buf);
        stored.persisted().serialize(&mut ser).map_err(|e| format!("serialization failed: {e}"))?;
        let mut de = serde_json::Deserializer::from_slice(&buf);
        let back = verif::deserialize_revisions(&mut de).map_err(|e| format!("deserialization failed: {e} ({})", String::from_utf8_lossy(&buf)))?;
        ops += 2;
        check_decoded(&back, kind, edges, extra, false, "after a serde round trip")?;
    }
    #[cfg(not(feature = "persist"))]
    drop(stored);
    Ok(ops)
}

pub fn run_worker(tier: &str, w: usize, n: usize) -> WorkerOut {
    let mut out = WorkerOut::default();
    let alpha = edge_alphabet();
    let specs = extra_specs();
    let max_len = if tier == "quick" { 2 } else { 3 };
    let kinds = [OriginKind::Derived, OriginKind::DerivedUntracked];
    let mut count = 0usize;
    let mut seq: Vec<RawEdge> = Vec::new();
    // length 0
    let mut run = |seq: &[RawEdge], out: &mut WorkerOut| {
        for kind in kinds {
            for spec in &specs {
                out.stats.executions += 1;
                match check_case(kind, seq, *spec) {
                    Ok(ops) => {
                        out.stats.transitions += ops;
                        out.stats.checks += ops;
                    }
                    Err(msg) => {
                        if out.viols.len() < 5 {
                            out.viols.push(Viol {
                                property: "C25".into(),
                                signature: format!("C25:roundtrip:len{}", seq.len()),
                                what: msg,
                                case: json!({"engine": "e4", "config": if cfg!(feature = "persist") { "persist" } else { "seq" }, "kind": format!("{kind:?}"), "edges": seq, "extra": format!("{spec:?}")}),
                            });
                        }
                    }
                }
            }
        }
        out.stats.states += 1;
        let nontrivial = seq.iter().any(|e| e.0) || seq.iter().any(|e| e.1 > verif::PACKED_INGREDIENT_MAX || e.3 > verif::PACKED_GENERATION_MAX);
        if nontrivial {
            out.stats.nontrivial += 1;
        }
    };
    if w == 0 {
        run(&[], &mut out);
        out.stats.samples.push(json!({"edges": [[false, 4095, 1, 1048575], [true, 4096, 2147483648u32, 1048576]], "meaning": "(is_output, ingredient, index, generation)"}));
    }
    for a in &alpha {
        // partition by the first edge
        let mine = count % n == w;
        count += 1;
        if !mine {
            continue;
        }
        seq.clear();
        seq.push(*a);
        run(&seq, &mut out);
        if max_len >= 2 {
            for b in &alpha {
                seq.truncate(1);
                seq.push(*b);
                run(&seq, &mut out);
                if max_len >= 3 {
                    for c in &alpha {
                        seq.truncate(2);
                        seq.push(*c);
                        run(&seq, &mut out);
                    }
                }
            }
        }
    }
    out
}

pub fn replay(case: &serde_json::Value) -> Option<Option<String>> {
    let edges: Vec<RawEdge> = serde_json::from_value(case.get("edges")?.clone()).ok()?;
    let kind = if case.get("kind")?.as_str()? == "Derived" { OriginKind::Derived } else { OriginKind::DerivedUntracked };
    let extra = case.get("extra")?.as_str()?.to_string();
    for spec in extra_specs() {
        if format!("{spec:?}") == extra {
            return Some(check_case(kind, &edges, spec).err());
        }
    }
    None
}
