//! C19 layers 2-3: a model of salsa's wait / transfer protocol (`DependencyGraph`), transcribed
//! operation by operation from `src/runtime/dependency_graph.rs`, and bound to the code by
//! replaying every real H2 trace on it (`conform`): after every operation the model state must
//! equal the copy of the real state that the hook delivered.

use std::collections::{BTreeMap, BTreeSet};

/// Wait results: 0 completed, 1 panicked, 2 cancelled.
pub type Res = u8;

#[derive(Clone, Debug, PartialEq, Eq, Hash, PartialOrd, Ord, Default)]
pub struct Dg<T: Ord + Clone, Q: Ord + Copy> {
    /// blocked thread -> thread it waits for
    pub edges: BTreeMap<T, T>,
    /// query -> threads blocked on it (in blocking order)
    pub query_dependents: BTreeMap<Q, Vec<T>>,
    pub wait_results: BTreeMap<T, Res>,
    /// query -> (thread that owns it through the transfer, query it was transferred to)
    pub transferred: BTreeMap<Q, (T, Q)>,
    /// inverse of `transferred` (insertion order with swap-remove, as in the code)
    pub transferred_dependents: BTreeMap<Q, Vec<Q>>,
}

impl<T: Ord + Clone + std::fmt::Debug, Q: Ord + Copy + std::fmt::Debug> Dg<T, Q> {
    pub fn depends_on(&self, from: &T, to: &T) -> bool {
        let mut p = from.clone();
        let mut steps = 0;
        while let Some(q) = self.edges.get(&p) {
            if q == to {
                return true;
            }
            p = q.clone();
            steps += 1;
            if steps > self.edges.len() + 1 {
                return false;
            }
        }
        &p == to
    }

    /// `add_edge`
    pub fn add_edge(&mut self, from: T, query: Q, to: T) -> Result<(), String> {
        if from == to {
            return Err("add_edge: from == to".into());
        }
        if self.edges.contains_key(&from) {
            return Err(format!("add_edge: {from:?} is already blocked"));
        }
        if self.depends_on(&to, &from) {
            return Err(format!("add_edge: {to:?} already waits (transitively) for {from:?}: the wait would close a cycle"));
        }
        self.edges.insert(from.clone(), to);
        self.query_dependents.entry(query).or_default().push(from);
        Ok(())
    }

    /// `unblock_runtime`
    fn unblock_runtime(&mut self, id: &T, r: Res) -> Result<(), String> {
        if self.edges.remove(id).is_none() {
            return Err(format!("unblock_runtime: {id:?} is not blocked"));
        }
        self.wait_results.insert(id.clone(), r);
        Ok(())
    }

    /// `unblock_runtimes_blocked_on`
    pub fn unblock_blocked_on(&mut self, query: Q, r: Res) -> Result<Vec<T>, String> {
        let deps = self.query_dependents.remove(&query).unwrap_or_default();
        for t in &deps {
            self.unblock_runtime(t, r)?;
        }
        Ok(deps)
    }

    /// `block_on`, the part after the wake-up
    pub fn resume(&mut self, t: &T) -> Result<Res, String> {
        match self.wait_results.remove(t) {
            Some(r) => {
                if self.edges.contains_key(t) {
                    return Err(format!("resume: {t:?} still has a wait edge"));
                }
                Ok(r)
            }
            None => Err(format!("resume: no wait result for {t:?}")),
        }
    }

    fn dep_remove(&mut self, owner: Q, q: Q) {
        if let Some(v) = self.transferred_dependents.get_mut(&owner) {
            if let Some(i) = v.iter().position(|x| *x == q) {
                v.swap_remove(i);
            }
        }
    }

    /// `unblock_runtimes_blocked_on_transferred_queries_owned_by`
    pub fn unblock_transferred_owned_by(&mut self, key: Q, r: Res) -> Result<Vec<T>, String> {
        let mut woken = Vec::new();
        if let Some((_, owner)) = self.transferred.remove(&key) {
            self.dep_remove(owner, key);
        }
        fn rec<T: Ord + Clone + std::fmt::Debug, Q: Ord + Copy + std::fmt::Debug>(me: &mut Dg<T, Q>, q: Q, r: Res, woken: &mut Vec<T>, depth: usize) -> Result<(), String> {
            if depth > 64 {
                return Err("unblock_transferred: transfer relation is cyclic".into());
            }
            me.transferred.remove(&q);
            for d in me.transferred_dependents.remove(&q).unwrap_or_default() {
                woken.extend(me.unblock_blocked_on(d, r)?);
                rec(me, d, r, woken, depth + 1)?;
            }
            Ok(())
        }
        rec(self, key, r, &mut woken, 0)?;
        Ok(woken)
    }

    /// `undo_transfer_lock`
    pub fn undo_transfer(&mut self, key: Q) {
        if let Some((_, owner)) = self.transferred.remove(&key) {
            self.dep_remove(owner, key);
        }
    }

    /// `thread_id_of_transferred_query`
    pub fn thread_of_transferred(&self, key: Q, skip_over: Option<Q>) -> Option<T> {
        let (mut resolved, owner) = self.transferred.get(&key)?.clone();
        let mut cur = owner;
        let mut steps = 0;
        while let Some((nt, nk)) = self.transferred.get(&cur) {
            cur = *nk;
            steps += 1;
            if steps > self.transferred.len() + 2 {
                break;
            }
            if Some(*nk) == skip_over {
                continue;
            }
            resolved = nt.clone();
        }
        Some(resolved)
    }

    /// First half of `transfer_lock` (up to the registration of the dependent). Returns
    /// `None` for the early return (same owner as before), else `Some(thread_changed)`.
    pub fn transfer_part1(&mut self, query: Q, current: &T, new_owner: Q, new_owner_thread: &T) -> Result<Option<bool>, String> {
        if !(new_owner_thread == current || self.depends_on(new_owner_thread, current)) {
            return Err(format!("transfer_lock: new owner {new_owner:?} ({new_owner_thread:?}) is not blocked on {query:?} ({current:?})"));
        }
        let thread_changed = match self.transferred.get(&query).cloned() {
            None => {
                self.transferred.insert(query, (new_owner_thread.clone(), new_owner));
                current != new_owner_thread
            }
            Some(old) => {
                if old == (new_owner_thread.clone(), new_owner) {
                    return Ok(None);
                }
                let (old_owner_thread, old_owner) = old;
                self.dep_remove(old_owner, query);
                self.transferred.insert(query, (new_owner_thread.clone(), new_owner));
                // rewrite a chain that would become cyclic
                let mut seg = new_owner;
                let mut steps = 0;
                while let Some((_, next_target)) = self.transferred.get(&seg).cloned() {
                    let source = seg;
                    if next_target == query {
                        self.dep_remove(query, source);
                        if old_owner == new_owner {
                            self.transferred.remove(&source);
                        } else {
                            self.transferred.insert(source, (old_owner_thread.clone(), old_owner));
                            self.transferred_dependents.entry(old_owner).or_default().push(source);
                        }
                        break;
                    }
                    seg = next_target;
                    steps += 1;
                    if steps > self.transferred.len() + 2 {
                        return Err("transfer_lock: transfer chain is cyclic".into());
                    }
                }
                true
            }
        };
        let deps = self.transferred_dependents.entry(new_owner).or_default();
        if deps.contains(&new_owner) {
            return Err("transfer_lock: query transferred to itself".into());
        }
        deps.push(query);
        Ok(Some(thread_changed))
    }

    /// `unblock_transfer_target` + `update_transferred_edges` (second half of `transfer_lock`
    /// when the owning thread changed). Returns the thread that was woken, if any.
    pub fn transfer_part2(&mut self, query: Q, new_owner_thread: &T) -> Result<Option<T>, String> {
        // unblock_transfer_target
        fn find<T: Ord + Clone + std::fmt::Debug, Q: Ord + Copy + std::fmt::Debug>(me: &Dg<T, Q>, q: Q, nt: &T, depth: usize) -> Option<(Q, usize)> {
            if depth > 64 {
                return None;
            }
            if let Some(bl) = me.query_dependents.get(&q) {
                for (i, id) in bl.iter().enumerate() {
                    if id == nt || me.depends_on(nt, id) {
                        return Some((q, i));
                    }
                }
            }
            me.transferred_dependents.get(&q).into_iter().flatten().find_map(|d| find(me, *d, nt, depth + 1))
        }
        let mut woken = None;
        if let Some((q, i)) = find(self, query, new_owner_thread, 0) {
            let bl = self.query_dependents.get_mut(&q).unwrap();
            let t = bl.swap_remove(i);
            if bl.is_empty() {
                self.query_dependents.remove(&q);
            }
            self.unblock_runtime(&t, 0)?;
            woken = Some(t);
        }
        // update_transferred_edges
        fn upd<T: Ord + Clone + std::fmt::Debug, Q: Ord + Copy + std::fmt::Debug>(me: &mut Dg<T, Q>, q: Q, nt: &T, depth: usize) -> Result<(), String> {
            if depth > 64 {
                return Err("update_transferred_edges: transfer relation is cyclic".into());
            }
            if let Some(deps) = me.query_dependents.get(&q).cloned() {
                for d in deps {
                    match me.edges.get_mut(&d) {
                        Some(e) => *e = nt.clone(),
                        None => return Err(format!("update_transferred_edges: dependent {d:?} of {q:?} has no wait edge")),
                    }
                    if me.depends_on(nt, &d) {
                        return Err(format!("update_transferred_edges: circular wait between {nt:?} and {d:?}"));
                    }
                }
            }
            for d in me.transferred_dependents.get(&q).cloned().unwrap_or_default() {
                upd(me, d, nt, depth + 1)?;
            }
            Ok(())
        }
        upd(self, query, new_owner_thread, 0)?;
        Ok(woken)
    }
}

// ------------------------------------------------------------------------------------------------
// conformance: replay a real trace on the model

#[cfg(all(feature = "conc", feature = "hooks"))]
pub mod conform {
    use super::*;
    use salsa::verif::protocol::{Dump, Key, Op};

    type M = Dg<String, Key>;

    fn canon(m: &M) -> Dump {
        let mut d = Dump {
            edges: m.edges.iter().map(|(a, b)| (a.clone(), b.clone())).collect(),
            query_dependents: m.query_dependents.iter().filter(|(_, v)| !v.is_empty()).map(|(k, v)| (*k, v.clone())).collect(),
            wait_results: m.wait_results.iter().map(|(t, r)| (t.clone(), *r)).collect(),
            transferred: m.transferred.iter().map(|(k, (t, o))| (*k, (t.clone(), *o))).collect(),
            transferred_dependents: m
                .transferred_dependents
                .iter()
                .map(|(k, v)| {
                    let mut v = v.clone();
                    v.sort();
                    (*k, v)
                })
                .collect(),
        };
        d.edges.sort();
        d.query_dependents.sort();
        d.wait_results.sort();
        d.transferred.sort();
        d.transferred_dependents.sort();
        d
    }

    fn same(model: &M, real: &Dump) -> bool {
        let mut m = canon(model);
        let mut r = real.clone();
        // empty dependent lists are an artefact of `or_default` / removal order on both sides
        m.transferred_dependents.retain(|(_, v)| !v.is_empty());
        r.transferred_dependents.retain(|(_, v)| !v.is_empty());
        r.query_dependents.retain(|(_, v)| !v.is_empty());
        // the order inside a dependents list is an implementation detail (swap_remove)
        for (_, v) in m.query_dependents.iter_mut() {
            v.sort();
        }
        for (_, v) in r.query_dependents.iter_mut() {
            v.sort();
        }
        m == r
    }

    /// Replays the trace; returns the number of operations on which model and code were compared.
    pub fn replay(trace: &[(Op, Dump)]) -> Result<u64, String> {
        let mut m = M::default();
        let mut compared = 0u64;
        // inside the release of transferred queries the nested events are effects of the
        // operation the model applied as a whole at its start
        let mut nested = false;
        for (i, (op, dump)) in trace.iter().enumerate() {
            let at = |s: String| format!("event #{i} {op:?}: {s}");
            let mut compare_after = true;
            if nested && !matches!(op, Op::ReleaseTransferredOwnedBy { .. }) {
                if let Op::Unblocked { thread, result } = op {
                    if m.wait_results.get(thread) != Some(result) {
                        return Err(at(format!("the model did not wake {thread} with {result}")));
                    }
                }
                continue;
            }
            match op {
                Op::Claim { .. } | Op::Release { .. } => continue,
                Op::ReleaseTransferredBegin { query, result } => {
                    if !same(&m, dump) {
                        return Err(at(format!("before the operation the model state {:?} differs from the real state {dump:?}", canon(&m))));
                    }
                    compared += 1;
                    m.unblock_transferred_owned_by(*query, *result).map_err(&at)?;
                    nested = true;
                    compare_after = false;
                }
                Op::Blocked { thread, query, on_thread } => {
                    m.add_edge(thread.clone(), *query, on_thread.clone()).map_err(&at)?;
                }
                Op::ReleaseQuery { query, result } => {
                    // the hook fires before the release: compare first, then apply
                    if !same(&m, dump) {
                        return Err(at(format!("before the operation the model state {:?} differs from the real state {dump:?}", canon(&m))));
                    }
                    compared += 1;
                    m.unblock_blocked_on(*query, *result).map_err(&at)?;
                    compare_after = false;
                }
                Op::Unblocked { thread, result } => {
                    // an effect of the operation applied just before: the model must agree
                    if m.wait_results.get(thread) != Some(result) {
                        return Err(at(format!("the model did not wake {thread} with {result} (model wait results: {:?})", m.wait_results)));
                    }
                    compare_after = false;
                }
                Op::Resumed { thread, result } => {
                    let r = m.resume(thread).map_err(&at)?;
                    if r != *result {
                        return Err(at(format!("the model delivers {r}")));
                    }
                }
                Op::UndoTransfer { query } => m.undo_transfer(*query),
                Op::Transfer { query, by_thread, new_owner, new_owner_thread, thread_changed } => {
                    match m.transfer_part1(*query, by_thread, *new_owner, new_owner_thread).map_err(&at)? {
                        Some(tc) if tc == *thread_changed => {}
                        other => return Err(at(format!("the model computes thread_changed = {other:?}"))),
                    }
                    // the hook fires between the two halves of `transfer_lock`
                    if !same(&m, dump) {
                        return Err(at(format!("after the first half of the transfer the model state {:?} differs from the real state {dump:?}", canon(&m))));
                    }
                    compared += 1;
                    compare_after = false;
                    if *thread_changed {
                        m.transfer_part2(*query, new_owner_thread).map_err(&at)?;
                    }
                }
                Op::TransferEdgesUpdated { .. } => {
                    // second half already applied; compare below
                }
                Op::ReleaseTransferredOwnedBy { .. } => {
                    nested = false;
                }
            }
            if compare_after {
                if !same(&m, dump) {
                    return Err(at(format!("after the operation the model state {:?} differs from the real state {dump:?}", canon(&m))));
                }
                compared += 1;
            }
        }
        Ok(compared)
    }
}
