//! E1 `histx`: bounded-exhaustive history explorer over real salsa databases (DESIGN.md §2.1).

use std::sync::Arc;
use std::time::Instant;

use ql::ex::*;
use ql::items::{Out, Pk, Sess};
use ql::refm::{Expect, World};
use serde::{Deserialize, Serialize};
use serde_json::json;

use crate::evid::{Stats, Viol};
use crate::mon::{Flags, Monitor};

pub struct Spec {
    pub id: &'static str,
    pub programs: Vec<Program>,
    pub depth: usize,
    pub alphabet: Box<dyn Fn(&Program) -> Vec<Op> + Send + Sync>,
    pub flags: Flags,
    pub rule: &'static str,
    /// wall-clock cap per worker in seconds
    pub cap_s: u64,
    pub config: &'static str,
    pub assumptions: Vec<String>,
}

/// Depth of the histories of one program: programs named `deep-…` get one more operation,
/// programs named `shallow-…` one less.
pub fn depth_of(spec: &Spec, prog: &Program) -> usize {
    spec.depth + usize::from(prog.name.starts_with("deep-")) + 2 * usize::from(prog.name.starts_with("deeper-")) - usize::from(prog.name.starts_with("shallow-"))
}

#[derive(Clone, Debug, Serialize, Deserialize)]
pub struct Case {
    pub program: Program,
    pub history: Vec<Op>,
}

pub fn out_matches(exp: &Expect, out: &Out) -> bool {
    match (exp, out) {
        (Expect::Undefined, _) => true,
        (Expect::Unit, Out::Unit) => true,
        (Expect::Val(a), Out::Val(b)) => a == b,
        (Expect::Vals(a), Out::Vals(b)) => a == b,
        (Expect::Panic(a), Out::Panic(b)) => match (a, b) {
            (Pk::Injected(_), Pk::Injected(_)) => true,
            // a repeated request into a cycle that already hit the iteration limit in this
            // revision is answered with a propagated panic (C15 only demands "a panic")
            (Pk::TooManyIterations, Pk::CancelPropagated) => true,
            _ => a == b,
        },
        _ => false,
    }
}

/// Program holding the current inputs of `w` (for the fresh-database differential).
pub fn snapshot_program(p: &Program, w: &World) -> Program {
    Program {
        name: format!("{}@snapshot", p.name),
        cells: w.cells.iter().copied().zip(w.cell_dur.iter().copied()).collect(),
        nodes: p
            .nodes
            .iter()
            .enumerate()
            .map(|(i, n)| NodeDef { kind: n.kind, ex: w.code[i].clone(), dur: w.code_dur[i], alt: None })
            .collect(),
        ext: w.ext.clone(),
        root0: p.root0,
    }
}

pub struct RunOut {
    pub viol: Option<(String, String, usize)>, // (oracle, message, step)
    pub reused: u64,
    pub reexec: u64,
}

/// Run one history on a fresh database, checking every oracle after every operation. With
/// `fresh_end`, the history is followed by a sweep that requests every node; the sweep's answers
/// are additionally compared with those of a second, fresh database holding the same inputs.
pub fn run_history(spec_flags: &Flags, prog: &Arc<Program>, hist: &[Op], stats: &mut Stats) -> RunOut {
    let mut sess = Sess::new(prog.clone());
    let mut world = World::new(prog);
    let mut mon = Monitor::new(spec_flags.clone(), prog.clone());
    mon.bind(&sess);
    let mut ro = RunOut { viol: None, reused: 0, reexec: 0 };
    sess.db.cx_arc().take_log();
    let n_hist = hist.len();
    let sweep: Vec<Op> = if spec_flags.fresh_end { (0..prog.nodes.len() as u8).map(Op::Q).collect() } else { Vec::new() };
    let mut fresh_sweep: Option<Sess> = None;
    let trace = std::env::var("MC_TRACE").is_ok();
    // C05: the same history on a twin database whose lru functions are ordinary functions
    let mut twin: Option<Sess> = if spec_flags.lru_twin {
        let mut p2 = (**prog).clone();
        for n in p2.nodes.iter_mut() {
            if n.kind == Kind::Lru {
                n.kind = Kind::Ev;
            }
        }
        let t = Sess::new(Arc::new(p2));
        t.db.cx_arc().logging.store(false, std::sync::atomic::Ordering::SeqCst);
        Some(t)
    } else {
        None
    };
    // external state changed without a new revision: the reference (which reads the current
    // external state) and a fresh database are not comparable until the next revision starts
    // (programs with impure user code - `Post::SpecPrev` - are not comparable with a fresh database)
    let mut ext_dirty = prog.nodes.iter().any(|n| format!("{:?}", n.ex).contains("SpecPrev"));
    let impure = ext_dirty;
    for (i, op) in hist.iter().chain(sweep.iter()).enumerate() {
        let is_sweep = i >= n_hist;
        let pre_world = if spec_flags.needs_pre_world { Some(world.clone()) } else { None };
        let exp = match world.apply_write(prog, op) {
            Some(e) => e,
            None => world.expect(op),
        };
        let mut out = sess.apply(op);
        let mut exp = exp;
        match op {
            Op::SetExt(..) => ext_dirty = true,
            Op::Set(..) | Op::SetD(..) | Op::Syn(_) | Op::SetExtSyn(..) | Op::Swap(_) => ext_dirty = impure,
            _ => {}
        }
        if ext_dirty && is_request(op) {
            exp = Expect::Undefined;
        }
        if let Some(t) = twin.as_mut() {
            if !matches!(op, Op::LruCap(_) | Op::LruTrig) {
                let t_out = t.apply(op);
                stats.checks += 1;
                if is_request(op) && !same_out(&t_out, &out) {
                    ro.viol = Some((
                        "lru-not-transparent".into(),
                        format!("step {i} {op:?}: with the lru function the request answers {out:?}, with unbounded caching {t_out:?}"),
                        i,
                    ));
                    return ro;
                }
            }
        }
        if prog.name.starts_with("acc-post") {
            // pushes after calls: the statement's "execution order" and salsa's documented order
            // (a function's own values first) differ, so only the multiset is compared
            if let (Expect::Vals(e), Out::Vals(o)) = (&mut exp, &mut out) {
                e.sort();
                o.sort();
            }
        }
        if spec_flags.cycle_panic && is_request(op) {
            // C14: whether a non-recovering function is re-entered depends on the request order
            // and on which memos are still valid; the operational oracle (mon.rs) decides whether
            // a panic is due. A returned value must be the least fixpoint of all equations.
            let mut w2 = world.clone();
            for k in w2.kinds.iter_mut() {
                if *k == Kind::Ev {
                    *k = Kind::Fx;
                }
            }
            exp = match (&out, w2.expect(op)) {
                (Out::Panic(Pk::Cycle), _) | (Out::Panic(Pk::CancelPropagated), _) => Expect::Undefined,
                (_, e) => e,
            };
        }
        let log = sess.db.cx_arc().take_log();
        if trace {
            eprintln!("== step {i}{} {op:?} -> {out:?} (expected {exp:?})", if is_sweep { " (sweep)" } else { "" });
            for r in &log {
                eprintln!("     {r:?}");
            }
        }
        stats.checks += 1;
        mon.pre_scan(i, op, &log, &sess);
        if spec_flags.values && !out_matches(&exp, &out) {
            let class = mon.classify(&out).unwrap_or("value");
            ro.viol = Some((class.into(), format!("step {i} {op:?}: expected {exp:?}, observed {out:?}"), i));
            return ro;
        }
        if let Out::Panic(Pk::Other(m)) = &out {
            if !matches!(exp, Expect::Panic(Pk::Other(_))) {
                let class = mon.classify(&out).unwrap_or("unexpected-panic");
                ro.viol = Some((class.into(), format!("step {i} {op:?}: panic {m:?}"), i));
                return ro;
            }
        }
        match &out {
            Out::Panic(p) => stats.outcome(&format!("panic:{}", pk_name(p))),
            Out::Val(_) => stats.outcome("value"),
            Out::Vals(_) => stats.outcome("values"),
            Out::Unit => stats.outcome("unit"),
        }
        if let Err((oracle, msg)) = mon.after_op(i, op, &exp, &out, &log, &mut sess, &world, pre_world.as_ref(), stats) {
            ro.viol = Some((oracle, format!("step {i} {op:?}: {msg}"), i));
            return ro;
        }
        // fresh-database differential: on every request (thorough) and on the final sweep
        if !ext_dirty && (is_sweep || (spec_flags.fresh_each && is_request(op))) {
            let f_out = if is_sweep {
                if fresh_sweep.is_none() {
                    let f = Sess::new(Arc::new(snapshot_program(prog, &world)));
                    f.db.cx_arc().logging.store(false, std::sync::atomic::Ordering::SeqCst);
                    fresh_sweep = Some(f);
                    stats.bump("fresh_db_differentials", 1);
                }
                fresh_sweep.as_mut().unwrap().apply(op)
            } else {
                let mut f = Sess::new(Arc::new(snapshot_program(prog, &world)));
                f.db.cx_arc().logging.store(false, std::sync::atomic::Ordering::SeqCst);
                stats.bump("fresh_db_differentials", 1);
                f.apply(op)
            };
            stats.checks += 1;
            if !same_out(&f_out, &out) {
                let class = mon.classify(&out).unwrap_or("fresh-db");
                ro.viol = Some((
                    class.into(),
                    format!("step {i} {op:?}: incremental database answers {out:?}, a fresh database with the same inputs answers {f_out:?}"),
                    i,
                ));
                return ro;
            }
        }
    }
    ro.reused = mon.reused;
    ro.reexec = mon.reexec;
    if let Err((oracle, msg)) = mon.at_end(&mut sess, &world, stats) {
        ro.viol = Some((oracle, msg, hist.len()));
    }
    ro
}

pub fn is_request(op: &Op) -> bool {
    matches!(op, Op::Q(_) | Op::Q2(..) | Op::Q0 | Op::Acc(_) | Op::QFld(..) | Op::QOnTs(..) | Op::QInt(..) | Op::NewInput(_) | Op::QK(..))
}

pub fn pk_name(p: &Pk) -> &'static str {
    match p {
        Pk::Injected(_) => "injected",
        Pk::CancelLocal => "cancel-local",
        Pk::CancelPendingWrite => "cancel-pending-write",
        Pk::CancelPropagated => "cancel-propagated",
        Pk::Cycle => "cycle",
        Pk::TooManyIterations => "too-many-iterations",
        Pk::Frozen => "frozen",
        Pk::SpecifyForeign => "specify-foreign",
        Pk::SpecifyTwice => "specify-twice",
        Pk::Other(_) => "other",
    }
}

fn same_out(a: &Out, b: &Out) -> bool {
    match (a, b) {
        (Out::Panic(x), Out::Panic(y)) => pk_name(x) == pk_name(y),
        _ => a == b,
    }
}

/// C22: run `hist` with a panic injected at user-code callback point number `inject` (counted
/// over the whole history); returns (violation, did the injection fire, kind of the point).
pub fn run_fault_case(prog: &Arc<Program>, hist: &[Op], inject: i64, stats: &mut Stats) -> (Option<(String, String, usize)>, bool, Option<ql::val::P>, u64) {
    use ql::val::inj;
    let mut sess = Sess::new(prog.clone());
    sess.db.cx_arc().event_points.store(true, std::sync::atomic::Ordering::SeqCst);
    sess.db.cx_arc().logging.store(false, std::sync::atomic::Ordering::SeqCst);
    let mut world = World::new(prog);
    inj::arm(inject);
    let mut fired_at: Option<usize> = None;
    let mut fired_rev = String::new();
    let n_hist = hist.len();
    // epilogue: one more revision, then every node
    let mut tail: Vec<Op> = vec![Op::Syn(Dur::Low)];
    tail.extend((0..prog.nodes.len() as u8).map(Op::Q));
    let mut viol = None;
    for (i, op) in hist.iter().chain(tail.iter()).enumerate() {
        let exp = match world.apply_write(prog, op) {
            Some(e) => e,
            None => world.expect(op),
        };
        let was_fired = inj::fired();
        let out = sess.apply(op);
        let rev = format!("{:?}", salsa::plumbing::current_revision(&sess.db));
        stats.checks += 1;
        if !was_fired && inj::fired() {
            // this is the operation in which the injected panic happened
            fired_at = Some(i);
            fired_rev = rev.clone();
            if !matches!(out, Out::Panic(Pk::Injected(_))) {
                viol = Some(("marker-lost".to_string(), format!("step {i} {op:?}: a panic was injected at callback point {inject} ({:?}) but the operation ended in {out:?}", inj::fired_kind()), i));
                break;
            }
            // a write interrupted by the panic may or may not have taken effect: the model
            // follows what the database actually holds
            match op {
                Op::Set(c, _) | Op::SetD(c, _, _) => {
                    let actual = sess.read_cell(*c);
                    world.cells[*c as usize] = actual;
                }
                Op::Swap(n) => {
                    let actual = sess.read_code(*n);
                    let k = *n as usize;
                    let is_alt = prog.nodes[k].alt.as_ref() == Some(&actual) && prog.nodes[k].ex != actual;
                    world.swapped[k] = is_alt;
                    sess.swapped[k] = is_alt;
                    world.code[k] = actual;
                }
                _ => {}
            }
            continue;
        }
        let ok = if out_matches(&exp, &out) {
            true
        } else if matches!(out, Out::Panic(Pk::Cycle) | Out::Panic(Pk::CancelPropagated)) && matches!(op, Op::Q(n) if world.reaches_plain_cycle(*n)) {
            // a request that enters a cycle at (or reaches it through) a function without cycle
            // handling panics with salsa's cycle error, and the heads poisoned by that panic answer
            // with a propagated panic for the rest of the revision (C14's rule); the reference,
            // which solves every cycle as a fixpoint, has no value to offer for it
            true
        } else if fired_at.is_some() && rev == fired_rev && matches!(out, Out::Panic(Pk::CancelPropagated)) {
            // same revision as the panic: a function that depends on a cycle may still answer
            // with a propagated panic
            match op {
                Op::Q(n) => {
                    let reach = world.reachable(&[*n]);
                    reach.iter().enumerate().any(|(j, r)| *r && matches!(world.kinds[j], Kind::Fx | Kind::Fxj | Kind::Fb))
                }
                _ => false,
            }
        } else {
            false
        };
        if !ok {
            let phase = if fired_at.is_none() { "before the injection" } else if i >= n_hist { "in a later revision" } else { "after the injection" };
            viol = Some((
                format!("after-panic:{}", inj::fired_kind().map(|k| format!("{k:?}")).unwrap_or_else(|| "none".into())),
                format!("step {i} {op:?} ({phase}; panic injected at point {inject} {:?} in step {:?}): expected {exp:?}, observed {out:?}", inj::fired_kind(), fired_at),
                i,
            ));
            break;
        }
    }
    let fired = inj::fired();
    let kind = inj::fired_kind();
    let total = inj::disarm();
    drop(sess);
    (viol, fired, kind, total)
}

/// Attribute a C22 violation to a known cause, if there is one: the message of salsa's own
/// assertions about a tracked struct left write-locked by an earlier unwind, or (by re-running the
/// case with full logging and the cycle-defect detectors of `mon.rs`) one of the cycle defects.
fn classify_fault(prog: &Arc<Program>, hist: &[Op], inject: i64, oracle: &str, msg: &str, kind: Option<ql::val::P>) -> String {
    use ql::val::{inj, P};
    if msg.contains("two concurrent writers to")
        || msg.contains("cannot delete write-locked id")
        || msg.contains("cannot delete read-locked id")
        || msg.contains("failed to acquire write lock")
    {
        // the known finding is about panics in callbacks that run while salsa holds a struct's
        // update lock (field / identity comparison, hashing, the event callback); the same
        // symptom after a panic anywhere else is something else
        return match kind {
            Some(P::EqV) | Some(P::EqD) | Some(P::HashD) | Some(P::Event) => "tracked-struct-lock-state-after-unwind".into(),
            other => format!("struct-lock-state-after-unwind-at-{other:?}"),
        };
    }
    if prog.name.contains("colliding") {
        // an identity change under a colliding hash updates the slot in place (new generation)
        // before the creator finishes; if the creator then unwinds, its retry sees the slot as
        // already updated in this revision and keeps the old id
        return "colliding-identity-update-then-unwind".into();
    }
    if !prog.nodes.iter().any(|n| matches!(n.kind, Kind::Fx | Kind::Fxj | Kind::Fb)) {
        return oracle.to_string();
    }
    let mut sess = Sess::new(prog.clone());
    sess.db.cx_arc().event_points.store(true, std::sync::atomic::Ordering::SeqCst);
    let mut world = World::new(prog);
    let flags = Flags { values: true, ..Flags::default() };
    let mut mon = Monitor::new(flags, prog.clone());
    mon.bind(&sess);
    let mut st = Stats::default();
    inj::arm(inject);
    let mut tail: Vec<Op> = vec![Op::Syn(Dur::Low)];
    tail.extend((0..prog.nodes.len() as u8).map(Op::Q));
    let mut class = oracle.to_string();
    for (i, op) in hist.iter().chain(tail.iter()).enumerate() {
        let exp = match world.apply_write(prog, op) {
            Some(e) => e,
            None => world.expect(op),
        };
        let was_fired = inj::fired();
        let out = sess.apply(op);
        let log = sess.db.cx_arc().take_log();
        mon.pre_scan(i, op, &log, &sess);
        if !was_fired && inj::fired() {
            match op {
                Op::Set(c, _) | Op::SetD(c, _, _) => world.cells[*c as usize] = sess.read_cell(*c),
                Op::Swap(n) => {
                    let actual = sess.read_code(*n);
                    let k = *n as usize;
                    let is_alt = prog.nodes[k].alt.as_ref() == Some(&actual) && prog.nodes[k].ex != actual;
                    world.swapped[k] = is_alt;
                    sess.swapped[k] = is_alt;
                    world.code[k] = actual;
                }
                _ => {}
            }
            let _ = mon.after_op(i, op, &Expect::Undefined, &out, &log, &mut sess, &world, None, &mut st);
            continue;
        }
        if !out_matches(&exp, &out) && !matches!(out, Out::Panic(Pk::CancelPropagated)) {
            if let Some(c) = mon.classify(&out) {
                class = c.to_string();
            }
            break;
        }
        let _ = mon.after_op(i, op, &exp, &out, &log, &mut sess, &world, None, &mut st);
    }
    inj::disarm();
    class
}

/// C22 worker: every history of the stated depth x every injection point.
pub fn run_fault_worker(spec: &Spec, w: usize, nw: usize) -> WorkerOut {
    let start = Instant::now();
    let mut out = WorkerOut::default();
    let mut part = 0usize;
    let mut viol_sigs = std::collections::BTreeSet::new();
    'progs: for prog in &spec.programs {
        let alpha = (spec.alphabet)(prog);
        let prog = Arc::new(prog.clone());
        let na = alpha.len();
        for first in 0..na {
            let mine = part % nw == w;
            part += 1;
            if !mine {
                continue;
            }
            let d = depth_of(spec, &prog);
            let mut idx = vec![0usize; d];
            idx[0] = first;
            loop {
                let hist: Vec<Op> = idx.iter().map(|i| alpha[*i].clone()).collect();
                // counting run
                let (v0, _, _, total) = run_fault_case(&prog, &hist, -1, &mut out.stats);
                out.stats.states += 1;
                if v0.is_some() {
                    // the history fails without any injection (a known finding of another
                    // property): not this property's business
                    out.stats.bump("histories_skipped_because_they_fail_without_injection", 1);
                } else {
                    for i in 0..total as i64 {
                        let (v, fired, kind, _) = run_fault_case(&prog, &hist, i, &mut out.stats);
                        out.stats.executions += 1;
                        out.stats.transitions += 1;
                        if fired {
                            out.stats.nontrivial += 1;
                            if let Some(k) = kind {
                                out.stats.bump(&format!("injected_at_{k:?}"), 1);
                                out.stats.outcome(&format!("panic-at-{k:?}"));
                            }
                        }
                        if out.stats.samples.len() < 2 && fired && i > 3 {
                            out.stats.samples.push(json!({"program": prog.name, "history": format!("{hist:?}"), "callback_points": total, "injected_at": i, "kind": format!("{kind:?}")}));
                        }
                        if let Some((oracle, msg, step)) = v {
                            let class = classify_fault(&prog, &hist, i, &oracle, &msg, kind);
                            let sig = format!("{}:{}:{}", spec.id, class, prog.name);
                            if viol_sigs.insert(sig.clone()) {
                                out.viols.push(Viol {
                                    property: spec.id.to_string(),
                                    signature: sig,
                                    what: msg,
                                    case: json!({"engine": "e1-fault", "config": spec.config, "step": step, "inject": i,
                                        "case": Case { program: (*prog).clone(), history: hist.clone() }}),
                                });
                            }
                        }
                    }
                }
                let mut k = d;
                let mut done = true;
                while k > 1 {
                    k -= 1;
                    idx[k] += 1;
                    if idx[k] < na {
                        done = false;
                        break;
                    }
                    idx[k] = 0;
                }
                if done {
                    break;
                }
                if start.elapsed().as_secs() > spec.cap_s {
                    out.stats.cap_hit = true;
                    break 'progs;
                }
            }
        }
    }
    out
}

#[derive(Serialize, Deserialize, Default)]
pub struct WorkerOut {
    pub stats: Stats,
    pub viols: Vec<Viol>,
}

/// Enumerate all histories of length `depth` whose (program, first op) partition index is
/// congruent to `w` mod `nw`.
pub fn run_worker(spec: &Spec, w: usize, nw: usize) -> WorkerOut {
    let start = Instant::now();
    let mut out = WorkerOut::default();
    let mut part = 0usize;
    let mut viol_sigs = std::collections::BTreeSet::new();
    'progs: for prog in &spec.programs {
        let alpha = (spec.alphabet)(prog);
        let prog = Arc::new(prog.clone());
        let na = alpha.len();
        if na == 0 {
            continue;
        }
        for first in 0..na {
            let mine = part % nw == w;
            part += 1;
            if !mine {
                continue;
            }
            let d = depth_of(spec, &prog);
            let mut idx = vec![0usize; d];
            idx[0] = first;
            let mut changed_from = 0usize;
            loop {
                let hist: Vec<Op> = idx.iter().map(|i| alpha[*i].clone()).collect();
                out.stats.states += (d - changed_from) as u64;
                out.stats.transitions += (d - changed_from) as u64;
                let r = run_history(&spec.flags, &prog, &hist, &mut out.stats);
                out.stats.executions += 1;
                if r.reused > 0 && r.reexec > 0 {
                    out.stats.nontrivial += 1;
                }
                if out.stats.samples.len() < 2 && r.reused > 0 && r.reexec > 0 {
                    out.stats.samples.push(json!({"program": prog.name, "history": format!("{hist:?}")}));
                }
                if let Some((oracle, msg, step)) = r.viol {
                    let classified = oracle.starts_with("cycle-") || oracle.starts_with("stale-cycle") || oracle.starts_with("fallback-participant") || oracle.starts_with("specified-to-computed") || oracle.starts_with("struct-read-locked") || oracle.starts_with("deleted-struct-slot");
                    let _ = classified;
                    let sig = format!("{}:{}:{}", spec.id, oracle, prog.name);
                    if viol_sigs.insert(sig.clone()) {
                        out.viols.push(Viol {
                            property: spec.id.to_string(),
                            signature: sig,
                            what: msg,
                            case: json!({"engine": "e1", "config": spec.config, "step": step,
                                "case": Case { program: (*prog).clone(), history: hist.clone() }}),
                        });
                    }
                }
                // odometer over positions 1..d
                let mut k = d;
                let mut done = true;
                while k > 1 {
                    k -= 1;
                    idx[k] += 1;
                    if idx[k] < na {
                        done = false;
                        break;
                    }
                    idx[k] = 0;
                }
                if done {
                    break;
                }
                changed_from = k;
                if start.elapsed().as_secs() > spec.cap_s {
                    out.stats.cap_hit = true;
                    break 'progs;
                }
            }
        }
    }
    out
}
