//! `mc`: coordinator / worker binary of the salsa model-checking harness (DESIGN.md).

mod e1;
#[cfg(feature = "conc")]
mod e2;
#[cfg(all(feature = "hooks", not(feature = "conc")))]
mod e4;
mod evid;
#[cfg(all(feature = "memchk", not(feature = "conc")))]
mod e1mem;
#[cfg(feature = "memchk")]
mod memchk;
mod mon;
mod mon2;
#[cfg(all(feature = "conc", feature = "hooks"))]
mod proto;
mod pmodel;
#[cfg(feature = "conc")]
mod pexplore;
mod progs;
mod props;

#[cfg(feature = "memchk")]
#[global_allocator]
static ALLOC: memchk::Quarantine = memchk::Quarantine;

use std::io::Write;
use std::process::{Command, Stdio};
use std::time::Instant;

fn usage() -> ! {
    eprintln!("usage: mc check <ID> --tier quick|thorough | mc worker <ID> --tier T --part w/n | mc replay <ID> <path>");
    std::process::exit(2)
}

fn quiet_panics() {
    // expected panics (cycle panics, injected markers, Cancelled) are part of normal operation
    if std::env::var("MC_VERBOSE_PANICS").is_err() {
        std::panic::set_hook(Box::new(|_| {}));
    }
}

fn main() {
    let args: Vec<String> = std::env::args().collect();
    if args.len() < 3 {
        usage();
    }
    let cmd = args[1].as_str();
    let id = args[2].clone();
    let mut tier = std::env::var("VERIF_TIER").unwrap_or_else(|_| "quick".into());
    let mut part: Option<(usize, usize)> = None;
    let mut path: Option<String> = None;
    let mut i = 3;
    while i < args.len() {
        match args[i].as_str() {
            "--tier" => {
                tier = args[i + 1].clone();
                i += 2;
            }
            "--part" => {
                let (a, b) = args[i + 1].split_once('/').unwrap_or_else(|| usage());
                part = Some((a.parse().unwrap(), b.parse().unwrap()));
                i += 2;
            }
            "--replay" => {
                path = Some(args[i + 1].clone());
                i += 2;
            }
            other => {
                path = Some(other.to_string());
                i += 1;
            }
        }
    }
    if tier != "quick" && tier != "thorough" {
        usage();
    }
    quiet_panics();
    match cmd {
        "check" => {
            if let Some(p) = path {
                std::process::exit(props::replay(&id, &p));
            }
            std::process::exit(coordinator(&id, &tier));
        }
        "worker" => {
            let (w, n) = part.unwrap_or((0, 1));
            let out = props::worker(&id, &tier, w, n);
            let s = serde_json::to_string(&out).unwrap();
            let stdout = std::io::stdout();
            let mut l = stdout.lock();
            writeln!(l, "WORKER-RESULT {s}").unwrap();
        }
        #[cfg(feature = "memchk")]
        "case" => {
            // run one recorded case in this process (the caller interprets a crash)
            let p = path.unwrap_or_else(|| usage());
            let v = evid::read_replay(std::path::Path::new(&p));
            std::process::exit(props::run_case_inproc(&v))
        }
        "replay" => {
            let p = path.unwrap_or_else(|| usage());
            std::process::exit(props::replay(&id, &p));
        }
        _ => usage(),
    }
}

#[cfg(feature = "memchk")]
fn read_c23_progress(w: usize) -> Option<serde_json::Value> {
    serde_json::from_str(&std::fs::read_to_string(evid::verif_root().join("target").join(format!("c23-progress-{w}.json"))).ok()?).ok()
}

/// Spawn one worker process per core; merge; write evidence.
fn coordinator(id: &str, tier: &str) -> i32 {
    let start = Instant::now();
    let Some(meta) = props::meta(id, tier) else {
        eprintln!("MACHINERY: unknown property {id} in this build configuration");
        return 2;
    };
    let n = std::env::var("MC_WORKERS").ok().and_then(|s| s.parse().ok()).unwrap_or_else(|| {
        std::thread::available_parallelism().map(|n| n.get()).unwrap_or(4)
    });
    let n = n.min(meta.max_workers.max(1));
    let exe = std::env::current_exe().expect("current exe");
    let mut children = Vec::new();
    for w in 0..n {
        // pin each worker to one core: baton hand-offs between the OS threads of one worker are
        // then same-core context switches (3-4x cheaper than cross-core wake-ups)
        let ncpu = std::thread::available_parallelism().map(|n| n.get()).unwrap_or(1);
        let mut cmd = if meta.pin_workers && std::path::Path::new("/usr/bin/taskset").exists() {
            let mut c = Command::new("/usr/bin/taskset");
            c.arg("-c").arg(format!("{}", w % ncpu)).arg(&exe);
            c
        } else {
            Command::new(&exe)
        };
        let child = cmd
            .args(["worker", id, "--tier", tier, "--part", &format!("{w}/{n}")])
            .stdout(Stdio::piped())
            .stderr(Stdio::inherit())
            .spawn();
        match child {
            Ok(c) => children.push((w, c)),
            Err(e) => {
                eprintln!("MACHINERY: cannot spawn worker: {e}");
                return 2;
            }
        }
    }
    let mut stats = evid::Stats::default();
    let mut viols = Vec::new();
    let mut machinery_fail = false;
    for (w, c) in children {
        let o = match c.wait_with_output() {
            Ok(o) => o,
            Err(e) => {
                eprintln!("MACHINERY: worker {w} wait failed: {e}");
                machinery_fail = true;
                continue;
            }
        };
        let text = String::from_utf8_lossy(&o.stdout);
        let line = text.lines().rev().find(|l| l.starts_with("WORKER-RESULT "));
        match line {
            Some(l) => match serde_json::from_str::<e1::WorkerOut>(&l["WORKER-RESULT ".len()..]) {
                Ok(wo) => {
                    stats.merge(&wo.stats);
                    viols.extend(wo.viols);
                }
                Err(e) => {
                    eprintln!("MACHINERY: worker {w} produced unparsable output: {e}");
                    machinery_fail = true;
                }
            },
            None => {
                #[cfg(feature = "memchk")]
                if id == "C23" {
                    // a worker that crashed (SIGSEGV, abort) under the monitoring allocator is a
                    // finding about the case it was running, not a machinery failure
                    if let Some(c) = read_c23_progress(w) {
                        let name = c.pointer("/case/program/name").or_else(|| c.pointer("/scenario/name")).and_then(|x| x.as_str()).unwrap_or("?").to_string();
                        let mut case = c.clone();
                        if case.get("engine").is_none() {
                            case["engine"] = serde_json::json!("e1-mem");
                            case["config"] = serde_json::json!("mem");
                        }
                        viols.push(evid::Viol {
                            property: "C23".into(),
                            signature: format!("C23:crash:{name}"),
                            what: format!("the process running this case died with {:?}", o.status),
                            case,
                        });
                        let _ = std::fs::remove_file(evid::verif_root().join("target").join(format!("c23-progress-{w}.json")));
                        continue;
                    }
                }
                eprintln!("MACHINERY: worker {w} died without a result (status {:?}); stdout tail: {}", o.status, text.lines().rev().take(5).collect::<Vec<_>>().join(" | "));
                machinery_fail = true;
            }
        }
    }
    if machinery_fail {
        return 2;
    }
    // a violation must reproduce deterministically before it is reported
    // (the first case of every distinct signature, i.e. of every (class, input) pair: these are
    // the cases that are reported; enumeration order is simplest-first)
    let mut confirmed = Vec::new();
    let mut seen_sig = std::collections::BTreeSet::new();
    for v in viols {
        if !seen_sig.insert(v.signature.clone()) {
            confirmed.push(v);
            continue;
        }
        match props::confirm(id, &v) {
            props::Confirm::Reproduced => confirmed.push(v),
            props::Confirm::NotReproduced => {
                eprintln!("MACHINERY: violation {} did not reproduce on replay; treating as engine nondeterminism", v.signature);
                return 2;
            }
        }
    }
    let rep = evid::Report {
        id,
        tier,
        engine: meta.engine,
        config: meta.config,
        rule: meta.rule,
        bounds: meta.bounds.clone(),
        exhaustive_within_bounds: true,
        assumptions: meta.assumptions.clone(),
        level: "model_checking",
        extra: meta.extra.clone(),
    };
    evid::finish(rep, &stats, &confirmed, start.elapsed().as_secs_f64())
}
