//! Property-specific monitors (LRU, identities, interning, specify, ...).

use ql::ex::*;
use ql::items::{Out, Rec, Sess};
use ql::refm::{Expect, World};

use crate::evid::Stats;
use crate::mon::Flags;

pub struct Sub {}

impl Sub {
    pub fn new(_flags: &Flags, _prog: &Program) -> Sub {
        Sub {}
    }

    #[allow(clippy::too_many_arguments)]
    pub fn after_op(
        &mut self,
        _flags: &Flags,
        _i: usize,
        _op: &Op,
        _exp: &Expect,
        _out: &Out,
        _log: &[Rec],
        _sess: &mut Sess,
        _world: &World,
        _pre_world: Option<&World>,
        _stats: &mut Stats,
        _rev: u64,
    ) -> Result<(), (String, String)> {
        Ok(())
    }

    pub fn at_end(&mut self, _flags: &Flags, _sess: &mut Sess, _world: &World, _stats: &mut Stats) -> Result<(), (String, String)> {
        Ok(())
    }
}
