//! Property-specific monitors (LRU, identities, interning, specify, ...).

use std::collections::{BTreeMap, BTreeSet};

use ql::ex::*;
use ql::items::{F, Out, Rec, Sess};
use ql::refm::{Expect, World};

use crate::evid::Stats;
use crate::mon::Flags;

/// Reference model of the LRU policy of `ev_lru` (C05).
#[derive(Default)]
pub struct LruModel {
    pub cap: usize,
    /// least recently used first
    pub list: Vec<u64>,
    /// key -> (computed from fully tracked dependencies, model believes the value is cached)
    pub computed: BTreeMap<u64, (bool, bool)>,
}

impl LruModel {
    fn touch(&mut self, key: u64) {
        if self.cap == 0 {
            return;
        }
        self.list.retain(|k| *k != key);
        self.list.push(key);
    }
    /// eviction pass at the start of a new revision / on trigger
    fn pass(&mut self) -> u64 {
        let mut evicted = 0;
        if self.cap == 0 {
            return 0;
        }
        while self.list.len() > self.cap {
            let k = self.list.remove(0);
            if let Some(e) = self.computed.get_mut(&k) {
                if e.0 && e.1 {
                    e.1 = false;
                    evicted += 1;
                }
            }
        }
        evicted
    }
    fn set_cap(&mut self, c: usize) {
        self.cap = c;
        if c == 0 {
            self.list.clear();
        }
    }
    pub fn believed_cached(&self, key: u64) -> Option<bool> {
        self.computed.get(&key).map(|e| e.1)
    }
}

/// C06: identity map of tracked structs.
#[derive(Default)]
pub struct IdentModel {
    /// creator key -> structs of its last completed execution, in creation order (variant, ident, id)
    pub last: BTreeMap<u64, Vec<(u8, u8, u64)>>,
    /// struct id -> number of distinct struct-keyed functions that executed on it
    pub funcs_on: BTreeMap<u64, BTreeSet<F>>,
}

/// C08 (sequential part) / C09: interned identities and the reclamation rule.
#[derive(Default)]
pub struct InternModel {
    /// id -> (ty, data, ever interned at non-LOW durability, revision of last intern/revalidation)
    pub info: BTreeMap<u64, (u8, u8, bool, u64)>,
    /// current id of (ty, data)
    pub cur: BTreeMap<(u8, u8), u64>,
    /// slot index -> id currently occupying it
    pub slot: BTreeMap<u32, u64>,
    /// per type: revisions in which the type was used (ascending, distinct)
    pub used: BTreeMap<u8, Vec<u64>>,
    /// (ty, data) -> revisions in which it was interned (for "keeps identity" of C08)
    pub interned_in: BTreeMap<(u8, u8), Vec<u64>>,
}

fn revisions_of(ty: u8) -> Option<usize> {
    match ty {
        1 => Some(1),
        2 => Some(2),
        3 => Some(3),
        _ => None,
    }
}

pub struct Sub {
    pub lru: LruModel,
    pub ident: IdentModel,
    pub intern: InternModel,
    prog: Program,
    /// id bits of the code input of node i
    pub node_keys: Vec<u64>,
    /// struct id -> (creator node, index among the creator's structs)
    sp_owner: BTreeMap<u64, (u8, u32)>,
    pub sp_spec_state: BTreeMap<u64, bool>,
    /// (ingredient, key id) of a memo -> interned ids its last execution used
    pub int_reads: BTreeMap<(String, u64), Vec<u64>>,
    pub taint_spec_switch: bool,
    /// keys of the specifiable function whose body has run at some point
    pub sp_computed: BTreeSet<u64>,
    /// a key whose value was computed earlier got a specified value in a later execution of its
    /// creator (computed -> assigned switch)
    pub taint_comp_to_spec: bool,
}

fn starts_revision(op: &Op) -> bool {
    matches!(op, Op::Set(..) | Op::SetD(..) | Op::Syn(_) | Op::SetExtSyn(..) | Op::Swap(_))
}

impl Sub {
    pub fn new(_flags: &Flags, _prog: &Program) -> Sub {
        Sub { lru: LruModel { cap: 2, ..Default::default() }, ident: Default::default(), intern: Default::default(), prog: _prog.clone(), node_keys: Vec::new(), sp_owner: BTreeMap::new(), sp_spec_state: BTreeMap::new(), taint_spec_switch: false, sp_computed: BTreeSet::new(), taint_comp_to_spec: false, int_reads: BTreeMap::new() }
    }

    #[allow(clippy::too_many_arguments)]
    pub fn after_op(
        &mut self,
        flags: &Flags,
        _i: usize,
        op: &Op,
        exp: &Expect,
        out: &Out,
        log: &[Rec],
        sess: &mut Sess,
        _world: &World,
        _pre_world: Option<&World>,
        stats: &mut Stats,
        _rev: u64,
    ) -> Result<(), (String, String)> {
        if flags.lru {
            self.lru_after_op(op, exp, out, log, sess, stats)?;
        }
        if flags.ident {
            self.ident_after_op(log, sess, stats)?;
        }
        if flags.intern {
            self.intern_after_op(log, stats, _rev)?;
        }
        if flags.specify {
            self.specify_after_op(log, _world, stats)?;
        }
        Ok(())
    }

    fn ident_after_op(&mut self, log: &[Rec], sess: &mut Sess, stats: &mut Stats) -> Result<(), (String, String)> {
        use ql::items::EvK;
        // creator activations: (key, created so far)
        let mut stack: Vec<(F, u64, Vec<(u8, u8, u64)>)> = Vec::new();
        let mut removed: Vec<u64> = Vec::new();
        let mut discards: BTreeMap<u64, u32> = BTreeMap::new();
        for r in log {
            match r {
                Rec::Enter { f, key, .. } => {
                    if matches!(f, F::OnTs | F::OnTs2 | F::Sp | F::OnTsc) {
                        self.ident.funcs_on.entry(*key).or_default().insert(*f);
                    }
                    stack.push((*f, *key, Vec::new()));
                }
                Rec::Made { variant, ident, id, .. } => {
                    if let Some(fr) = stack.last_mut() {
                        fr.2.push((*variant, *ident, *id));
                    }
                }
                Rec::Exit { f, key, unwinding, .. } => {
                    let Some(fr) = stack.pop() else { continue };
                    if *f != F::Mk || *unwinding || fr.1 != *key {
                        continue;
                    }
                    let cur = fr.2;
                    // distinct within the execution
                    let ids: BTreeSet<u64> = cur.iter().map(|x| x.2).collect();
                    if ids.len() != cur.len() {
                        return Err(("ident-not-distinct".into(), format!("creator {key} produced two structs with the same id: {cur:?}")));
                    }
                    // distinct across creators (live structs of other creators)
                    for (k2, other) in &self.ident.last {
                        if k2 != key {
                            for o in other {
                                if ids.contains(&o.2) {
                                    return Err(("ident-not-distinct".into(), format!("struct id {} is used by creators {key} and {k2}", o.2)));
                                }
                            }
                        }
                    }
                    if let Some(prev) = self.ident.last.get(key) {
                        // stability for the honest-hash variant: same (ident, occurrence) => same id
                        let occ = |v: &Vec<(u8, u8, u64)>| {
                            let mut m: BTreeMap<(u8, u32), u64> = BTreeMap::new();
                            let mut cnt: BTreeMap<u8, u32> = BTreeMap::new();
                            for (var, ident, id) in v {
                                if *var == 0 {
                                    let c = cnt.entry(*ident).or_insert(0);
                                    m.insert((*ident, *c), *id);
                                    *c += 1;
                                }
                            }
                            m
                        };
                        let (po, co) = (occ(prev), occ(&cur));
                        for (k, id) in &co {
                            if let Some(pid) = po.get(k) {
                                stats.bump("identities_compared_across_executions", 1);
                                if pid != id {
                                    return Err((
                                        "ident-unstable".into(),
                                        format!("creator {key}: struct with identity value {} (occurrence {}) had id {pid} in the previous execution and has id {id} now", k.0, k.1),
                                    ));
                                }
                            }
                        }
                        // colliding-hash variant: stable while the sequence of creations is unchanged
                        let pc: Vec<&(u8, u8, u64)> = prev.iter().filter(|x| x.0 == 1).collect();
                        let cc: Vec<&(u8, u8, u64)> = cur.iter().filter(|x| x.0 == 1).collect();
                        for j in 0..pc.len().min(cc.len()) {
                            if pc[j].1 != cc[j].1 {
                                break;
                            }
                            stats.bump("identities_compared_across_executions", 1);
                            if pc[j].2 != cc[j].2 {
                                return Err((
                                    "ident-unstable".into(),
                                    format!("creator {key}: colliding-hash struct #{j} (identity {}) changed id {} -> {}", cc[j].1, pc[j].2, cc[j].2),
                                ));
                            }
                        }
                        for p in prev {
                            if !ids.contains(&p.2) {
                                removed.push(p.2);
                            }
                        }
                    }
                    self.ident.last.insert(*key, cur);
                }
                Rec::Ev { k: EvK::DidDiscard, key: Some(k), .. } => {
                    *discards.entry(k.id).or_insert(0) += 1;
                }
                _ => {}
            }
        }
        if !removed.is_empty() {
            let (a, b) = ql::items::ts_entry_ids(&sess.db);
            for id in &removed {
                stats.bump("structs_no_longer_created", 1);
                let nf = self.ident.funcs_on.get(id).map(|s| s.len()).unwrap_or(0) as u32;
                let got = discards.get(id).copied().unwrap_or(0);
                // a slot re-occupied in place by a new generation (identity fields changed under a
                // colliding hash) is reclaimed without a discard event for the struct itself
                let slot = *id & 0xFFFF_FFFF;
                let reoccupied = self.ident.last.values().flatten().any(|x| x.2 != *id && (x.2 & 0xFFFF_FFFF) == slot);
                if reoccupied {
                    stats.bump("struct_slots_reoccupied_in_place", 1);
                }
                if !reoccupied && got < 1 + nf {
                    return Err((
                        "stale-struct-not-discarded".into(),
                        format!("struct {id} is no longer created: expected a discard of the struct and of {nf} memoized results keyed by it, observed {got} discard events for that id"),
                    ));
                }
                // `entries()` reports table slots (without generation)
                let enumerated = a.iter().chain(b.iter()).any(|x| (*x & 0xFFFF_FFFF) == slot);
                if !reoccupied && enumerated {
                    return Err(("stale-struct-enumerated".into(), format!("struct {id} is no longer created but is still enumerated")));
                }
                self.ident.funcs_on.remove(id);
            }
        }
        Ok(())
    }

    /// C10: the body of the specifiable function runs only when the reference computes the value.
    fn specify_after_op(&mut self, log: &[Rec], world: &World, stats: &mut Stats) -> Result<(), (String, String)> {
        // creator activations in progress: (creator key, index of the next struct)
        let mut stack: Vec<(F, u64, u32)> = Vec::new();
        let mut made_now: Vec<u64> = Vec::new();
        for r in log {
            match r {
                Rec::Enter { f, key, .. } => {
                    if *f == F::Sp {
                        self.sp_computed.insert(*key);
                        if self.sp_spec_state.get(key) == Some(&true) {
                            // the creator specified this key in an earlier revision and no longer
                            // does: the value switches from assigned to computed
                            self.taint_spec_switch = true;
                            self.taint_comp_to_spec = false;
                            self.sp_spec_state.insert(*key, false);
                        }
                        if let Some((node, idx)) = self.sp_owner.get(key).copied() {
                            if let Ok(m) = world.mk_of(node) {
                                if let Some(s) = m.structs.get(idx as usize) {
                                    stats.bump("specifiable_bodies_executed", 1);
                                    if s.spec.is_some() && s.computed_first.is_none() {
                                        return Err((
                                            "specified-body-executed".into(),
                                            format!("the body of the specifiable function ran for struct #{idx} of creator node {node}, for which the creator specifies {:?}", s.spec),
                                        ));
                                    }
                                }
                            }
                        }
                    }
                    stack.push((*f, *key, 0));
                }
                Rec::SpecPrevAttempt { .. } => stats.bump("specify_attempts_on_a_struct_of_the_previous_execution", 1),
                Rec::SpecPrevAccepted { id, .. } => {
                    return Err((
                        "specify-accepted-for-a-struct-of-a-previous-execution".into(),
                        format!("`specify` was accepted for struct {id}, which the current execution of its creator has not created (the handle was kept outside salsa from the previous execution): it must panic"),
                    ));
                }
                Rec::Made { id, variant, .. } => {
                    if let Some(fr) = stack.iter_mut().rev().find(|fr| fr.0 == F::Mk) {
                        if *variant == 0 {
                            if let Some(node) = self.node_keys.iter().position(|k| *k == fr.1) {
                                self.sp_owner.insert(*id, (node as u8, fr.2));
                                made_now.push(*id);
                            }
                        }
                        fr.2 += 1;
                    }
                }
                Rec::Exit { .. } => {
                    stack.pop();
                }
                _ => {}
            }
        }
        // remember, per struct, whether the creator's latest *execution* specified its value
        let mut cache: BTreeMap<u8, Option<ql::refm::RMk>> = BTreeMap::new();
        for id in &made_now {
            let Some((node, idx)) = self.sp_owner.get(id) else { continue };
            let m = cache.entry(*node).or_insert_with(|| world.mk_of(*node).ok());
            if let Some(m) = m {
                if let Some(s) = m.structs.get(*idx as usize) {
                    // an assigned memo stays in place (stale) when the creator stops specifying it,
                    // until the body of the specifiable function runs for that key
                    if s.spec.is_some() && s.computed_first.is_none() {
                        self.sp_spec_state.insert(*id, true);
                    }
                }
            }
        }
        Ok(())
    }

    fn intern_after_op(&mut self, log: &[Rec], stats: &mut Stats, rev: u64) -> Result<(), (String, String)> {
        use ql::items::EvK;
        let m = &mut self.intern;
        // code durability of the running function decides the durability of the interning
        let mut stack: Vec<(F, u64)> = Vec::new();
        let mut pending_reuse: Vec<u64> = Vec::new();
        for r in log {
            match r {
                Rec::Enter { f, key, .. } => stack.push((*f, *key)),
                Rec::Exit { .. } => {
                    stack.pop();
                }
                Rec::Ev { k: EvK::DidReuseInterned, key: Some(k), .. } => pending_reuse.push(k.id),
                Rec::Ev { k: EvK::DidValidateMemo, key: Some(k), .. } => {
                    // a function depending on an interned value was revalidated: that counts as
                    // a use of the value in this revision, whatever events salsa emits
                    if let Some(ids) = self.int_reads.get(&(format!("{:?}", k.ing), k.id)) {
                        for id in ids {
                            if let Some(e) = m.info.get_mut(id) {
                                // only if the value still occupies its slot
                                let slot = (*id & 0xFFFF_FFFF) as u32;
                                if m.slot.get(&slot) == Some(id) {
                                    e.3 = rev;
                                    let ty = e.0;
                                    let u = m.used.entry(ty).or_default();
                                    if u.last() != Some(&rev) {
                                        u.push(rev);
                                    }
                                    stats.bump("interned_values_revalidated_through_dependents", 1);
                                }
                            }
                        }
                    }
                }
                Rec::Ev { k: EvK::DidValidateInterned, key: Some(k), .. } => {
                    if let Some(e) = m.info.get_mut(&k.id) {
                        e.3 = rev;
                        let ty = e.0;
                        let u = m.used.entry(ty).or_default();
                        if u.last() != Some(&rev) {
                            u.push(rev);
                        }
                    }
                }
                Rec::Interned { ty, data, id, in_query, .. } => {
                    let u = m.used.entry(*ty).or_default();
                    if u.last() != Some(&rev) {
                        u.push(rev);
                    }
                    // durability class of this interning
                    let low = if !*in_query {
                        // Outside a query salsa creates a value with maximal durability (never
                        // reclaimed) but a lookup of an existing value leaves its durability
                        // alone; the property speaks about interning *by functions* only.
                        m.info.contains_key(id)
                    } else {
                        // the node whose body is running: first frame with a node key
                        let node_dur = stack.iter().rev().find_map(|(f, key)| match f {
                            F::Ev | F::NoEq | F::Lru | F::Fx | F::Fxj | F::Fb | F::Mk => Some(*key),
                            F::Ev2 => Some(*key >> 8),
                            _ => None,
                        });
                        match node_dur.and_then(|k| self.node_keys.iter().position(|x| *x == k)) {
                            Some(n) => self.prog.nodes[n].dur == Dur::Low,
                            None => false,
                        }
                    };
                    let slot = (*id & 0xFFFF_FFFF) as u32;
                    let reused_now = pending_reuse.contains(id);
                    if reused_now {
                        pending_reuse.retain(|x| x != id);
                        stats.bump("interned_slots_reused", 1);
                        // only-if conditions on the old occupant of the slot
                        if let Some(old_id) = m.slot.get(&slot).copied() {
                            if let Some((oty, odata, nonlow, last)) = m.info.get(&old_id).copied() {
                                let Some(rv) = revisions_of(oty) else {
                                    return Err(("reclaimed-immortal".into(), format!("a value of the type with collection disabled was reclaimed (data {odata})")));
                                };
                                if nonlow {
                                    return Err(("reclaimed-durable".into(), format!("value (ty {oty}, data {odata}) was interned at non-LOW durability but its slot was reused")));
                                }
                                let used = m.used.get(&oty).cloned().unwrap_or_default();
                                if used.len() < rv {
                                    return Err(("reclaimed-too-early".into(), format!("type {oty}: reclamation after only {} revisions using the type (needs {rv})", used.len())));
                                }
                                let oldest = used[used.len() - rv];
                                if last >= oldest {
                                    return Err((
                                        "reclaimed-recently-used".into(),
                                        format!("value (ty {oty}, data {odata}) was last interned/revalidated in revision #{last}, which is among the last {rv} revisions using the type (oldest #{oldest}), but its slot was reused"),
                                    ));
                                }
                                if m.cur.get(&(oty, odata)) == Some(&old_id) {
                                    m.cur.remove(&(oty, odata));
                                }
                            }
                        }
                    }
                    // identity of (ty, data)
                    if let Some(prev) = m.cur.get(&(*ty, *data)).copied() {
                        if prev != *id {
                            // legal only if the previous id's slot has been taken over since
                            let pslot = (prev & 0xFFFF_FFFF) as u32;
                            if m.slot.get(&pslot) == Some(&prev) {
                                return Err((
                                    "interned-identity-changed".into(),
                                    format!("value (ty {ty}, data {data}) had id {prev}, which was not reclaimed, but now has id {id}"),
                                ));
                            }
                        } else {
                            stats.bump("interned_identity_preserved", 1);
                        }
                    }
                    // canonical: no other data shares this id
                    if let Some((oty, odata, _, _)) = m.info.get(id) {
                        if (*oty, *odata) != (*ty, *data) {
                            return Err(("interned-alias".into(), format!("id {id} denotes (ty {oty}, data {odata}) and (ty {ty}, data {data})")));
                        }
                    }
                    m.cur.insert((*ty, *data), *id);
                    m.slot.insert(slot, *id);
                    let e = m.info.entry(*id).or_insert((*ty, *data, false, rev));
                    e.2 |= !low;
                    e.3 = rev;
                    m.interned_in.entry((*ty, *data)).or_default().push(rev);
                }
                _ => {}
            }
        }
        Ok(())
    }

    fn lru_after_op(
        &mut self,
        op: &Op,
        exp: &Expect,
        out: &Out,
        log: &[Rec],
        sess: &mut Sess,
        stats: &mut Stats,
    ) -> Result<(), (String, String)> {
        let panicked = matches!(out, Out::Panic(_)) || matches!(exp, Expect::Panic(_));
        // 1. effects of the operation itself on the model
        match op {
            Op::LruCap(c) => self.lru.set_cap(*c as usize),
            Op::LruTrig => {
                let n = self.lru.pass();
                stats.bump("lru_model_evictions", n);
            }
            _ if starts_revision(op) && !panicked => {
                let n = self.lru.pass();
                stats.bump("lru_model_evictions", n);
            }
            _ => {}
        }
        // 2. executions and fetches observed in the log
        let mut open_calls: Vec<(F, u64)> = Vec::new();
        let mut frames: Vec<(F, u64, bool)> = Vec::new();
        for r in log {
            match r {
                Rec::CallBegin { f, key, .. } => open_calls.push((*f, *key)),
                Rec::CallEnd { f, key, .. } => {
                    if let Some(p) = open_calls.iter().rposition(|c| *c == (*f, *key)) {
                        open_calls.truncate(p);
                    }
                    if *f == F::Lru {
                        self.lru.touch(*key);
                    }
                }
                Rec::Enter { f, key, .. } => {
                    if *f == F::Lru {
                        // (c) an evicted result is recomputed only inside a fetch of that key
                        let in_fetch = open_calls.last() == Some(&(F::Lru, *key));
                        if !in_fetch && self.lru.believed_cached(*key) == Some(false) {
                            return Err((
                                "evicted-recomputed-without-request".into(),
                                format!("evicted lru result {key} was recomputed although it was not requested (enclosing call: {:?})", open_calls.last()),
                            ));
                        }
                    }
                    frames.push((*f, *key, false));
                }
                Rec::ReadExt { .. } => {
                    if let Some(fr) = frames.last_mut() {
                        fr.2 = true;
                    }
                }
                Rec::Exit { f, key, unwinding, .. } => {
                    if let Some(fr) = frames.pop() {
                        if *f == F::Lru && !*unwinding && fr.0 == *f && fr.1 == *key {
                            self.lru.computed.insert(*key, (!fr.2, true));
                        }
                    }
                }
                _ => {}
            }
        }
        // 3. the bound, immediately after a new revision started or eviction was triggered
        let pass_happened = matches!(op, Op::LruTrig) || (starts_revision(op) && !panicked);
        if pass_happened && self.lru.cap > 0 {
            let observed = ql::items::lru_cached_count(&sess.db);
            let in_list: BTreeSet<u64> = self.lru.list.iter().copied().collect();
            let nonqualifying = self.lru.computed.iter().filter(|(k, e)| e.1 && (!e.0 || !in_list.contains(k))).count();
            stats.bump("lru_bound_checks", 1);
            if observed > self.lru.cap + nonqualifying {
                return Err((
                    "lru-bound".into(),
                    format!(
                        "{observed} results of the lru function are cached after the eviction pass; capacity {} + {nonqualifying} results not subject to eviction (untracked origin or requested while eviction was disabled)",
                        self.lru.cap
                    ),
                ));
            }
            if observed < self.lru.computed.values().filter(|e| e.1).count() {
                stats.bump("lru_more_evicted_than_model", 1);
            }
        }
        Ok(())
    }

    pub fn at_end(&mut self, _flags: &Flags, _sess: &mut Sess, _world: &World, _stats: &mut Stats) -> Result<(), (String, String)> {
        Ok(())
    }
}
