//! E2: preemption-bounded exhaustive schedule exploration of real salsa code on the `ctl` engine.

use std::sync::{Arc, Mutex};
use std::time::Duration;

use ql::ex::*;
use ql::items::{EvK, F, Out, Pk, Rec, Sess, request};
use ql::refm::{Expect, World};
use serde::{Deserialize, Serialize};
use serde_json::json;
use shuttle::{Config, Failure};

use crate::e1::{WorkerOut, out_matches, pk_name};
use crate::evid::{Stats, Viol};

#[derive(Clone, Debug, Serialize, Deserialize, PartialEq, Eq)]
pub enum Oracle {
    /// C16: every request = reference
    Readers,
    /// C17: additionally at most one execution per key per revision
    Once,
    /// C18: cyclic programs, values = lfp / fallback reference
    Cycles,
    /// C08: canonical interning across threads
    Intern,
    /// C20: readers may be cancelled by the concurrent writer
    Writer,
    /// C24: all identities created concurrently are pairwise distinct and read back correctly
    Distinct,
    /// C21: thread 0's handle is cancelled through its token by an extra thread
    LocalCancel,
    /// C14: cycles through non-recovering functions: a request ends in the least fixpoint, a cycle
    /// panic or a propagated panic; with `true`, no request into the cycle may return a value
    PlainCycle(bool),
    /// C22: a marker panic is injected at the n-th user-code callback point (global order of the
    /// schedule) while the threads run; -1 = counting run
    Fault(i64),
}

#[derive(Clone, Debug, Serialize, Deserialize)]
pub struct Scen {
    pub name: String,
    pub prog: Program,
    /// sequential prefix run by the main handle before the threads start
    pub setup: Vec<Op>,
    /// per-thread request lists (each thread owns a clone of the database)
    pub threads: Vec<Vec<Op>>,
    /// second phase: writes by the main handle after all threads joined, then requests by the
    /// same threads again (fresh clones)
    pub phase2_writes: Vec<Op>,
    pub phase2: bool,
    pub bound: u32,
    pub oracle: Oracle,
    /// C20: operations the main handle performs while the reader threads run
    #[serde(default)]
    pub writer: Vec<Op>,
}

pub struct E2Spec {
    pub id: &'static str,
    pub scens: Vec<Scen>,
    pub cap_s: u64,
    pub rule: &'static str,
    pub assumptions: Vec<String>,
}

static VIOLS: Mutex<Vec<(String, String, Vec<u32>)>> = Mutex::new(Vec::new());
static OUTCOMES: Mutex<Vec<String>> = Mutex::new(Vec::new());
static COUNTERS: Mutex<Vec<(String, u64)>> = Mutex::new(Vec::new());

fn viol(sig: &str, what: String) {
    let sch = shuttle::current_schedule();
    VIOLS.lock().unwrap().push((sig.to_string(), what, sch));
}
fn outcome(s: String) {
    OUTCOMES.lock().unwrap().push(s);
}
fn bump(k: &str, n: u64) {
    if n > 0 {
        COUNTERS.lock().unwrap().push((k.to_string(), n));
    }
}

fn expected_for(world: &World, ops: &[Op]) -> Vec<Expect> {
    ops.iter().map(|op| world.expect(op)).collect()
}

fn outs_class(outs: &[Vec<Out>]) -> String {
    outs.iter()
        .map(|t| {
            t.iter()
                .map(|o| match o {
                    Out::Val(v) => format!("{v}"),
                    Out::Vals(v) => format!("{v:?}"),
                    Out::Unit => "()".into(),
                    Out::Panic(p) => format!("!{}", pk_name(p)),
                })
                .collect::<Vec<_>>()
                .join(",")
        })
        .collect::<Vec<_>>()
        .join(" | ")
}

/// C22 (second half): the threads run their requests while a marker panic is injected at the
/// `inject`-th callback point; afterwards everything is requested again.
fn fault_body(sc: &Scen, inject: i64) {
    use ql::val::inj;
    let prog = Arc::new(sc.prog.clone());
    let mut sess = Sess::new(prog.clone());
    let mut world = World::new(&prog);
    sess.db.cx_arc().event_points.store(true, std::sync::atomic::Ordering::SeqCst);
    sess.db.cx_arc().logging.store(false, std::sync::atomic::Ordering::SeqCst);
    for op in &sc.setup {
        let _ = world.apply_write(&prog, op);
        let _ = sess.apply(op);
    }
    inj::arm(inject);
    let handles: Vec<_> = sc
        .threads
        .iter()
        .map(|ops| {
            let db = sess.db.clone();
            let ops = ops.clone();
            shuttle::thread::spawn(move || {
                let outs: Vec<Out> = ops.iter().map(|op| request(&db, op)).collect();
                drop(db);
                outs
            })
        })
        .collect();
    let mut outs: Vec<Vec<Out>> = Vec::new();
    for h in handles {
        match h.join() {
            Ok(o) => outs.push(o),
            Err(_) => {
                inj::disarm();
                viol(&format!("thread-panic:{}", sc.name), "a thread panicked outside a request".into());
                return;
            }
        }
    }
    let points = inj::disarm();
    let fired = inj::fired();
    let kind = inj::fired_kind();
    bump("callback_points_max", 0);
    MAX_POINTS.fetch_max(points, std::sync::atomic::Ordering::SeqCst);
    if fired {
        bump("schedules_with_injected_panic", 1);
        bump("nontrivial_schedules", 1);
    }
    outcome(format!("{}: {}{}", sc.name, outs_class(&outs), if fired { format!(" [panic at {kind:?}]") } else { String::new() }));
    // oracle: the marker reaches exactly the caller whose computation ran the callback; the
    // others see the reference value or, if they waited for that computation / read its poisoned
    // cycle head in this revision, a propagated panic
    let cyclic = prog.nodes.iter().any(|n| matches!(n.kind, Kind::Fx | Kind::Fxj | Kind::Fb));
    let mut injected_seen = 0;
    for (t, ops) in sc.threads.iter().enumerate() {
        let exp = expected_for(&world, ops);
        for (i, (e, o)) in exp.iter().zip(outs[t].iter()).enumerate() {
            let ok = match o {
                Out::Panic(Pk::Injected(_)) => {
                    injected_seen += 1;
                    fired
                }
                Out::Panic(Pk::CancelPropagated) => fired,
                _ => out_matches(e, o),
            };
            if !ok {
                viol(&format!("fault-concurrent-result:{}", sc.name), format!("thread {t} request {i} {:?}: expected {e:?} (or the injected / a propagated panic), observed {o:?}; panic injected: {fired} at {kind:?}", ops[i]));
                return;
            }
        }
    }
    if fired && injected_seen != 1 {
        viol(&format!("marker-lost:{}", sc.name), format!("a panic was injected at callback point {inject} ({kind:?}) but {injected_seen} requests ended with it: {}", outs_class(&outs)));
        return;
    }
    // afterwards (injection off): in the same revision for programs without cycles, after one
    // more revision for all
    let mut rounds: Vec<bool> = vec![true];
    if !cyclic {
        rounds.insert(0, false);
    }
    for new_rev in rounds {
        if new_rev {
            let op = Op::Syn(ql::ex::Dur::Low);
            let _ = world.apply_write(&prog, &op);
            if let Out::Panic(p) = sess.apply(&op) {
                viol(&format!("fault-later-write:{}", sc.name), format!("the write after the panic panicked: {p:?}"));
                return;
            }
        }
        for n in 0..prog.nodes.len() as u8 {
            let op = Op::Q(n);
            let e = world.expect(&op);
            let o = sess.apply(&op);
            if !out_matches(&e, &o) {
                viol(
                    &format!("fault-later-result:{}", sc.name),
                    format!("after a panic injected at point {inject} ({kind:?}), {} request {op:?}: expected {e:?}, observed {o:?}", if new_rev { "in the next revision" } else { "in the same revision" }),
                );
                return;
            }
        }
    }
    bump("schedules_checked", 1);
}

/// Number of callback points the scenario passes under the default schedule without injection.
pub fn count_points(sc: &Scen) -> u64 {
    MAX_POINTS.store(0, std::sync::atomic::Ordering::SeqCst);
    let mut sc2 = sc.clone();
    sc2.oracle = Oracle::Fault(-1);
    let cfg = Config { bound: 0, max_schedules: Some(1), ..Config::default() };
    let _ = shuttle::explore(cfg, move || scen_body(&sc2));
    VIOLS.lock().unwrap().clear();
    OUTCOMES.lock().unwrap().clear();
    COUNTERS.lock().unwrap().clear();
    MAX_POINTS.load(std::sync::atomic::Ordering::SeqCst)
}

pub static MAX_POINTS: std::sync::atomic::AtomicU64 = std::sync::atomic::AtomicU64::new(0);

/// C20: readers on clones, a concurrent write on the main handle, then a second phase.
fn writer_body(sc: &Scen) {
    let prog = Arc::new(sc.prog.clone());
    let mut sess = Sess::new(prog.clone());
    let mut world = World::new(&prog);
    for op in &sc.setup {
        let _ = world.apply_write(&prog, op);
        let _ = sess.apply(op);
    }
    sess.db.cx_arc().take_log();
    let old_world = world.clone();
    let handles: Vec<_> = sc
        .threads
        .iter()
        .map(|ops| {
            let db = sess.db.clone();
            let ops = ops.clone();
            shuttle::thread::spawn(move || {
                let mut outs: Vec<Out> = Vec::new();
                for op in &ops {
                    let o = request(&db, op);
                    let stop = matches!(o, Out::Panic(Pk::CancelPendingWrite) | Out::Panic(Pk::CancelPropagated));
                    outs.push(o);
                    if stop {
                        break;
                    }
                }
                // a cancelled (or finished) reader gives its handle back
                drop(db);
                outs
            })
        })
        .collect();
    // The writer runs on its own thread, spawned last: in the default schedule the readers run
    // first, and a single preemption of a reader lets the write land at any point of the reader's
    // computation. Every write must return (the engine reports a deadlock otherwise).
    let writer_ops = sc.writer.clone();
    let prog2 = prog.clone();
    let mut world_w = world.clone();
    let writer = shuttle::thread::spawn(move || {
        let mut sess = sess;
        let mut bad: Option<String> = None;
        for op in &writer_ops {
            let e = world_w.apply_write(&prog2, op);
            let o = sess.apply(op);
            if let (Some(Expect::Unit), Out::Panic(p)) = (&e, &o) {
                bad = Some(format!("write {op:?} panicked: {p:?}"));
                break;
            }
        }
        (sess, world_w, bad)
    });
    let mut outs: Vec<Vec<Out>> = Vec::new();
    for h in handles {
        match h.join() {
            Ok(o) => outs.push(o),
            Err(_) => {
                viol(&format!("thread-panic:{}", sc.name), "a reader thread panicked outside a request".into());
                return;
            }
        }
    }
    let (mut sess, world_after, bad) = match writer.join() {
        Ok(x) => x,
        Err(_) => {
            viol(&format!("thread-panic:{}", sc.name), "the writer thread panicked outside a write".into());
            return;
        }
    };
    world = world_after;
    if let Some(b) = bad {
        viol(&format!("writer-panic:{}", sc.name), b);
        return;
    }
    let log = sess.db.cx_arc().take_log();
    outcome(format!("{}: {}", sc.name, outs_class(&outs)));
    let cancelled_any = outs.iter().flatten().any(|o| matches!(o, Out::Panic(Pk::CancelPendingWrite)));
    if cancelled_any {
        bump("readers_cancelled_by_pending_write", 1);
    }
    if log.iter().any(|r| matches!(r, Rec::Ev { k: EvK::WillBlockOn(_), .. })) {
        bump("threads_blocked_on_other_thread", 1);
    }
    bump("nontrivial_schedules", cancelled_any as u64);
    for (t, ops) in sc.threads.iter().enumerate() {
        for (i, o) in outs[t].iter().enumerate() {
            let e = old_world.expect(&ops[i]);
            let ok = match o {
                Out::Panic(Pk::CancelPendingWrite) => true,
                // only legal if some other reader was cancelled while this one waited on it
                Out::Panic(Pk::CancelPropagated) => cancelled_any,
                _ => out_matches(&e, o),
            };
            if !ok {
                viol(
                    &format!("reader-value:{}", sc.name),
                    format!("reader {t} request {i} {:?}: expected the old revision's {e:?} or a pending-write cancellation, observed {o:?}", ops[i]),
                );
                return;
            }
        }
    }
    // phase 2: after the write every result equals a from-scratch evaluation
    for op in &sc.phase2_writes {
        let _ = world.apply_write(&prog, op);
        let _ = sess.apply(op);
    }
    for n in 0..prog.nodes.len() as u8 {
        let op = Op::Q(n);
        let e = world.expect(&op);
        let o = sess.apply(&op);
        if !out_matches(&e, &o) {
            viol(
                &format!("post-write-value:{}", sc.name),
                format!("after the write, node {n}: expected {e:?}, observed {o:?} (readers: {})", outs_class(&outs)),
            );
            return;
        }
    }
    sess.db.cx_arc().take_log();
}

const CANCEL_MARK: u32 = u32::MAX - 1;

/// C21: thread A (index 0) runs its requests, thread B cancels A's token once, the remaining
/// threads run overlapping requests; afterwards A retries until a request succeeds.
fn cancel_body(sc: &Scen) {
    use salsa::Database;
    let prog = Arc::new(sc.prog.clone());
    let mut sess = Sess::new(prog.clone());
    let mut world = World::new(&prog);
    for op in &sc.setup {
        let _ = world.apply_write(&prog, op);
        let _ = sess.apply(op);
    }
    sess.db.cx_arc().take_log();
    let a_db = sess.db.clone();
    let token = a_db.cancellation_token();
    let a_ops = sc.threads[0].clone();
    let a = shuttle::thread::spawn(move || {
        let outs: Vec<Out> = a_ops.iter().map(|op| request(&a_db, op)).collect();
        (a_db, outs)
    });
    let cx_b = sess.db.cx_arc();
    let b = shuttle::thread::spawn(move || {
        // the moment of the cancellation is chosen by the scheduler
        shuttle::thread::yield_now();
        token.cancel();
        // marker in the shared observation log (no scheduling point since the cancel)
        cx_b.rec(Rec::Op(CANCEL_MARK));
    });
    let others: Vec<_> = sc.threads[1..]
        .iter()
        .map(|ops| {
            let db = sess.db.clone();
            let ops = ops.clone();
            shuttle::thread::spawn(move || {
                let outs: Vec<Out> = ops.iter().map(|op| request(&db, op)).collect();
                drop(db);
                outs
            })
        })
        .collect();
    let (a_db, a_outs) = match a.join() {
        Ok(x) => x,
        Err(_) => {
            viol(&format!("thread-panic:{}", sc.name), "thread A panicked outside a request".into());
            return;
        }
    };
    let _ = b.join();
    let mut other_outs = Vec::new();
    for h in others {
        match h.join() {
            Ok(o) => other_outs.push(o),
            Err(_) => {
                viol(&format!("thread-panic:{}", sc.name), "a thread panicked outside a request".into());
                return;
            }
        }
    }
    // A retries (the token was cancelled at most once)
    let mut retry_outs = Vec::new();
    for op in &sc.threads[0] {
        retry_outs.push(request(&a_db, op));
    }
    let retry2: Vec<Out> = sc.threads[0].iter().map(|op| request(&a_db, op)).collect();
    drop(a_db);
    let log = sess.db.cx_arc().take_log();
    if std::env::var("MC_TRACE").is_ok() {
        eprintln!("== A: {} | retry {} | retry2 {}", outs_class(&[a_outs.clone()]), outs_class(&[retry_outs.clone()]), outs_class(&[retry2.clone()]));
        for r in &log {
            eprintln!("     {r:?}");
        }
    }
    let mut all = vec![a_outs.clone()];
    all.extend(other_outs.iter().cloned());
    outcome(format!("{}: {} || retry {}", sc.name, outs_class(&all), outs_class(&[retry_outs.clone()])));
    let n_local = a_outs.iter().chain(retry_outs.iter()).filter(|o| matches!(o, Out::Panic(Pk::CancelLocal))).count();
    bump("local_cancellations_observed", n_local as u64);
    if n_local > 0 && log.iter().any(|r| matches!(r, Rec::Ev { k: EvK::WillBlockOn(_), .. })) {
        bump("schedules_with_cancellation_and_a_blocked_thread", 1);
    }
    bump("nontrivial_schedules", (n_local > 0) as u64);
    // A: every result is the reference or a local cancellation; at most one per cancel()
    for (i, o) in a_outs.iter().chain(retry_outs.iter()).enumerate() {
        let op = &sc.threads[0][i % sc.threads[0].len()];
        let e = world.expect(op);
        if !(matches!(o, Out::Panic(Pk::CancelLocal)) || out_matches(&e, o)) {
            viol(&format!("cancelled-handle-value:{}", sc.name), format!("thread A request {i} {op:?}: expected {e:?} or a local cancellation, observed {o:?}"));
            return;
        }
    }
    if n_local > 1 {
        viol(&format!("cancelled-twice:{}", sc.name), format!("one cancel() cancelled {n_local} computations of the handle"));
        return;
    }
    // the cancellation must be honoured: the computation that is current at the moment of
    // cancel() unwinds at its next tracked-function request outside fixpoint iteration; if it
    // makes no such request the token is reset when it returns; if the handle is idle, its next
    // computation unwinds.
    {
        let a_th = 1u8; // thread A is the first spawned thread
        let mark = log.iter().position(|r| matches!(r, Rec::Op(m) if *m == CANCEL_MARK));
        if let Some(m) = mark {
            // walk A's records: which top-level request is current at the marker?
            let mut depth = 0i32;
            let mut req: i32 = -1; // index of A's current/last top-level request
            let mut fx_depth = 0i32;
            let mut must_cancel: Option<usize> = None;
            let mut decided = false;
            for (idx, r) in log.iter().enumerate() {
                match r {
                    Rec::CallBegin { th, .. } if *th == a_th || *th == 0 => {
                        if depth == 0 {
                            req += 1;
                            fx_depth = 0;
                            if idx > m && !decided {
                                // the handle was idle at cancel(): this computation must unwind
                                must_cancel = Some(req as usize);
                                decided = true;
                            }
                        } else if idx > m && !decided && fx_depth == 0 {
                            // a tracked-function request of the current computation, outside
                            // fixpoint iteration, after the cancel
                            must_cancel = Some(req as usize);
                            decided = true;
                        }
                        depth += 1;
                    }
                    Rec::CallEnd { th, .. } if *th == a_th || *th == 0 => {
                        depth -= 1;
                        if depth == 0 && idx > m && !decided {
                            // the current computation returned without another request: token reset
                            decided = true;
                        }
                    }
                    Rec::Enter { th, f, .. } if *th == a_th || *th == 0 => {
                        if matches!(f, F::Fx | F::Fxj | F::Fb) {
                            fx_depth += 1;
                        }
                    }
                    Rec::Exit { th, f, unwinding, .. } if *th == a_th || *th == 0 => {
                        if matches!(f, F::Fx | F::Fxj | F::Fb) {
                            fx_depth -= 1;
                        }
                        if *unwinding {
                            // unwinding pops the call frames without CallEnd records
                            if idx > m && !decided {
                                // a request logged just before the cancel() performed its
                                // cancellation check after it: the current computation unwinds
                                must_cancel = Some(req as usize);
                                decided = true;
                            }
                            depth = 0;
                        }
                    }
                    _ => {}
                }
            }
            let all: Vec<&Out> = a_outs.iter().chain(retry_outs.iter()).chain(retry2.iter()).collect();
            if let Some(j) = must_cancel {
                if j < all.len() {
                    bump("cancellations_that_had_to_unwind", 1);
                    if !matches!(all[j], Out::Panic(Pk::CancelLocal)) {
                        viol(
                            &format!("cancellation-lost:{}", sc.name),
                            format!("cancel() was called while request #{j} of the handle still had a tracked-function request outside fixpoint iteration ahead (or the handle was idle), but that request ended in {:?}", all[j]),
                        );
                        return;
                    }
                }
            }
            // ... and by no other: the single cancel() of the scenario may unwind only the
            // computation it hit; once that computation has returned or unwound the token is
            // reset and every other request of the handle runs normally (seeded change C21-r5:
            // the token survives a computation that returns normally).
            for (j, o) in all.iter().enumerate() {
                if Some(j) != must_cancel && matches!(o, Out::Panic(Pk::CancelLocal)) {
                    viol(
                        &format!("spurious-cancellation:{}", sc.name),
                        format!("request #{j} of the handle ended in a local cancellation although the only cancel() hit {}", match must_cancel { Some(k) => format!("request #{k}"), None => "a computation that returned without another tracked-function request (token reset)".to_string() }),
                    );
                    return;
                }
            }
        }
    }
    // the request right after a cancelled one runs normally
    let firsts: Vec<&Out> = a_outs.iter().chain(retry_outs.iter()).collect();
    for w in firsts.windows(2) {
        if matches!(w[0], Out::Panic(Pk::CancelLocal)) && matches!(w[1], Out::Panic(_)) {
            viol(&format!("token-not-reset:{}", sc.name), format!("the request after a locally cancelled one ended in {:?}", w[1]));
            return;
        }
    }
    for (i, o) in retry2.iter().enumerate() {
        let e = world.expect(&sc.threads[0][i]);
        if !out_matches(&e, o) {
            viol(&format!("cancelled-handle-value:{}", sc.name), format!("thread A second retry {i}: expected {e:?}, observed {o:?}"));
            return;
        }
    }
    // other handles are unaffected
    for (t, outs) in other_outs.iter().enumerate() {
        for (i, o) in outs.iter().enumerate() {
            let e = world.expect(&sc.threads[t + 1][i]);
            if !out_matches(&e, o) {
                viol(
                    &format!("other-handle-affected:{}", sc.name),
                    format!("thread {} request {i} {:?}: expected {e:?}, observed {o:?} (thread A: {})", t + 1, sc.threads[t + 1][i], outs_class(&[a_outs.clone()])),
                );
                return;
            }
        }
    }
    // cancellation is disabled during fixpoint iteration: no fixpoint activation is unwound
    if n_local > 0 {
        for r in &log {
            if let Rec::Exit { f, unwinding: true, th, .. } = r {
                if matches!(f, F::Fx | F::Fxj | F::Fb) {
                    viol(&format!("cancelled-inside-fixpoint:{}", sc.name), format!("a local cancellation unwound through an activation of {f:?} on thread {th}"));
                    return;
                }
            }
        }
    }
    let _ = &mut world;
}

/// One execution of a scenario under the controlled scheduler.
fn scen_body(sc: &Scen) {
    // C21: the per-handle cancellation token's operations are scheduling points (hook H3)
    shuttle::token_points(matches!(sc.oracle, Oracle::LocalCancel));
    match sc.oracle {
        Oracle::Writer => return writer_body(sc),
        Oracle::LocalCancel => return cancel_body(sc),
        Oracle::Fault(i) => return fault_body(sc, i),
        _ => {}
    }
    let prog = Arc::new(sc.prog.clone());
    let mut sess = Sess::new(prog.clone());
    let mut world = World::new(&prog);
    for op in &sc.setup {
        let _ = world.apply_write(&prog, op);
        let _ = sess.apply(op);
    }
    let setup_log = sess.db.cx_arc().take_log();
    let phases = if sc.phase2 { 2 } else { 1 };
    let mut nontrivial_counted = false;
    for phase in 0..phases {
        if phase == 1 {
            for op in &sc.phase2_writes {
                let _ = world.apply_write(&prog, op);
                let o = sess.apply(op);
                if let Out::Panic(p) = o {
                    viol(&format!("writer-panic:{}", sc.name), format!("phase-2 write {op:?} panicked: {p:?}"));
                    return;
                }
            }
        }
        let handles: Vec<_> = sc
            .threads
            .iter()
            .map(|ops| {
                let db = sess.db.clone();
                let ops = ops.clone();
                shuttle::thread::spawn(move || {
                    let mut db = db;
                    let mut outs: Vec<Out> = Vec::new();
                    #[cfg(feature = "memchk")]
                    ql::val::retain::enable(true);
                    for op in &ops {
                        if matches!(op, Op::Reclone) {
                            #[cfg(feature = "memchk")]
                            mem_revalidate();
                            let fresh = db.clone();
                            drop(db);
                            db = fresh;
                            outs.push(Out::Unit);
                        } else {
                            outs.push(request(&db, op));
                        }
                    }
                    // references handed out to this thread are valid as long as its handle lives
                    #[cfg(feature = "memchk")]
                    {
                        mem_revalidate();
                        ql::val::retain::enable(false);
                    }
                    drop(db);
                    outs
                })
            })
            .collect();
        // C24: requests on the original handle, issued by the main thread while the others run
        let mut main_outs: Vec<Out> = Vec::new();
        if sc.oracle == Oracle::Distinct && phase == 0 {
            for op in &sc.writer {
                main_outs.push(request(&sess.db, op));
            }
        }
        let mut outs: Vec<Vec<Out>> = Vec::new();
        for h in handles {
            match h.join() {
                Ok(o) => outs.push(o),
                Err(_) => {
                    viol(&format!("thread-panic:{}", sc.name), "a reader thread panicked outside a request".into());
                    return;
                }
            }
        }
        if sc.oracle == Oracle::Distinct && phase == 0 && !sc.writer.is_empty() {
            let exp = expected_for(&world, &sc.writer);
            for (i, (e, o)) in exp.iter().zip(main_outs.iter()).enumerate() {
                if !out_matches(e, o) {
                    viol(&format!("value:{}", sc.name), format!("original handle, request {i} {:?}: expected {e:?}, observed {o:?}", sc.writer[i]));
                    return;
                }
            }
        }
        #[cfg(feature = "memchk")]
        for (t, os) in outs.iter().enumerate() {
            for o in os {
                if let Out::Panic(Pk::Other(m)) = o {
                    if m.contains("storage corrupted") {
                        viol(&format!("memory-poisoned-read:{}", sc.name), format!("thread {t}: {m}"));
                    }
                }
            }
        }
        let log = sess.db.cx_arc().take_log();
        if sc.oracle == Oracle::Distinct {
            // every identity created in this phase (and by the sequential prefix) is distinct per
            // kind of struct, and reads back the value it was created with
            let mut seen: std::collections::BTreeMap<(u8, u64), (u8, u8)> = Default::default();
            for r in setup_log.iter().chain(log.iter()) {
                if let Rec::Made { variant, ident, f, id, th, .. } = r {
                    if *variant == 9 && ident != f {
                        viol(&format!("readback:{}", sc.name), format!("input {id} created with {ident} by thread {th} reads back {f}"));
                        return;
                    }
                    if let Some((oth, oident)) = seen.insert((*variant, *id), (*th, *ident)) {
                        // tracked structs are legitimately re-created with the same id by the same
                        // creator; two different threads / values must never share an identity
                        if *variant == 9 || oth != *th {
                            viol(
                                &format!("duplicate-identity:{}", sc.name),
                                format!("identity {id} (kind {variant}) was handed out to thread {oth} (value {oident}) and to thread {th} (value {ident})"),
                            );
                            return;
                        }
                    }
                }
            }
            bump("identities_created", seen.len() as u64);
            let pages: std::collections::BTreeSet<u64> = seen.keys().filter(|k| k.0 == 9).map(|k| (k.1 & 0xFFFF_FFFF) >> 7).collect();
            bump("input_pages_touched", pages.len() as u64);
        }
        if std::env::var("MC_TRACE").is_ok() {
            eprintln!("== phase {phase}: outcomes {}", outs_class(&outs));
            for r in &log {
                eprintln!("     {r:?}");
            }
        }
        outcome(format!("{}#{}: {}", sc.name, phase, outs_class(&outs)));
        // value oracle
        for (t, ops) in sc.threads.iter().enumerate() {
            let exp = expected_for(&world, ops);
            for (i, (e, o)) in exp.iter().zip(outs[t].iter()).enumerate() {
                let ok = match (&sc.oracle, e, o) {
                    (Oracle::PlainCycle(pure), _, _) if phase == 0 => {
                        // expectation with every function treated as fixpoint = least fixpoint
                        let mut w2 = world.clone();
                        for k in w2.kinds.iter_mut() {
                            if *k == Kind::Ev {
                                *k = Kind::Fx;
                            }
                        }
                        let lfp = w2.expect(&ops[i]);
                        // a request is "involved" if it reaches a non-recovering function on a cycle
                        let into_cycle = match &ops[i] {
                            Op::Q(n) => world.reaches_plain_cycle(*n),
                            _ => matches!(e, Expect::Panic(Pk::Cycle)),
                        };
                        match o {
                            Out::Panic(Pk::Cycle) | Out::Panic(Pk::CancelPropagated) => into_cycle,
                            Out::Val(_) => out_matches(&lfp, o) && !(*pure && into_cycle),
                            _ => false,
                        }
                    }
                    _ if out_matches(e, o) => true,
                    _ => false,
                };
                if !ok {
                    // known cause (see known_findings.json): the value a non-recovering member
                    // of a fixpoint cycle computed from a provisional value of the cycle head on
                    // another thread is returned to the requester, and the member is re-executed
                    // with a different result in a later iteration
                    let mut class = "value";
                    if let (Oracle::PlainCycle(_), Op::Q(_), Out::Val(v)) = (&sc.oracle, &ops[i], o) {
                        let key = log.iter().find_map(|r| match r {
                            Rec::CallBegin { th, f, key } if *th as usize == t + 1 && !f.has_cycle_handling() => Some((*f, *key)),
                            _ => None,
                        });
                        if let Some(k) = key {
                            let exits: Vec<u64> = log
                                .iter()
                                .filter_map(|r| match r {
                                    Rec::Exit { f, key, val, unwinding: false, .. } if (*f, *key) == k => Some(*val),
                                    _ => None,
                                })
                                .collect();
                            // the value was really computed by the member's body in some
                            // iteration (from a provisional value of the head), it is not the
                            // least fixpoint, and the requester got it
                            if exits.contains(&(*v as u64)) {
                                class = "provisional-value-of-non-recovering-member-returned";
                            }
                        }
                    }
                    viol(
                        &format!("{class}:{}", sc.name),
                        format!("phase {phase} thread {t} request {i} {:?}: expected {e:?}, observed {o:?}", ops[i]),
                    );
                    return;
                }
            }
        }
        if sc.oracle == Oracle::Intern {
            // canonical handles across threads: equal data <=> equal id (within this revision)
            let mut by_data: std::collections::BTreeMap<(u8, u8), u64> = Default::default();
            let mut by_id: std::collections::BTreeMap<u64, (u8, u8)> = Default::default();
            for r in &log {
                if let Rec::Interned { ty, data, id, .. } = r {
                    if let Some(prev) = by_data.insert((*ty, *data), *id) {
                        if prev != *id {
                            viol(&format!("intern-not-canonical:{}", sc.name), format!("phase {phase}: (ty {ty}, data {data}) interned as {prev} and as {id} in one revision"));
                            return;
                        }
                    }
                    if let Some(prev) = by_id.insert(*id, (*ty, *data)) {
                        if prev != (*ty, *data) {
                            viol(&format!("intern-alias:{}", sc.name), format!("phase {phase}: id {id} denotes {prev:?} and (ty {ty}, data {data})"));
                            return;
                        }
                    }
                }
            }
            bump("interning_calls_checked", log.iter().filter(|r| matches!(r, Rec::Interned { .. })).count() as u64);
        }
        // execution-count oracle
        let mut blocked = 0u64;
        let mut execs: std::collections::BTreeMap<(F, u64), u32> = Default::default();
        for r in &log {
            match r {
                Rec::Enter { f, key, .. } => *execs.entry((*f, *key)).or_insert(0) += 1,
                Rec::Ev { k: EvK::WillBlockOn(_), .. } => blocked += 1,
                Rec::Ev { k: EvK::WillIterate(_), .. } => bump("cycle_iterations", 1),
                _ => {}
            }
        }
        bump("threads_blocked_on_other_thread", blocked);
        let threads_executing: std::collections::BTreeSet<u8> =
            log.iter().filter_map(|r| if let Rec::Enter { th, .. } = r { Some(*th) } else { None }).collect();
        if (blocked > 0 || threads_executing.len() >= 2) && !nontrivial_counted {
            nontrivial_counted = true;
            bump("nontrivial_schedules", 1);
        }
        bump("body_executions", execs.values().map(|v| *v as u64).sum());
        if sc.oracle == Oracle::Once {
            for (k, n) in &execs {
                if *n > 1 {
                    viol(
                        &format!("executed-twice:{}", sc.name),
                        format!("phase {phase}: {k:?} executed {n} times in one revision"),
                    );
                    return;
                }
            }
        }
    }
}

#[cfg(feature = "memchk")]
fn mem_revalidate() {
    match ql::val::retain::revalidate() {
        Ok(n) => bump("references_revalidated", n as u64),
        Err(e) => viol("memory-dangling-reference", e),
    }
}

/// C23: poll the allocator monitor after an execution (and check the poison of everything freed).
#[cfg(feature = "memchk")]
fn mem_after_execution(sc: &Scen) {
    crate::memchk::drain(0);
    if let Some(e) = crate::memchk::take_error() {
        viol(&format!("memory-allocator:{}", sc.name), e);
    }
    bump("executions_polled_for_memory_errors", 1);
}

/// One execution, optionally with the C19 protocol monitors and the model conformance replay.
#[cfg(feature = "hooks")]
fn exec_with_proto(sc: &Scen, proto_on: bool) {
    if proto_on {
        crate::proto::take_trace();
    }
    scen_body(sc);
    #[cfg(feature = "memchk")]
    mem_after_execution(sc);
    if proto_on {
        let trace = crate::proto::take_trace();
        let mut st = crate::proto::ProtoStats::default();
        let r = crate::proto::check_trace(&trace, &mut st);
        bump("protocol_events", st.events);
        bump("threads_blocked", st.blocks);
        bump("lock_transfers", st.transfers);
        bump("lock_transfers_changing_thread", st.transfers_changing_thread);
        bump("releases_with_waiters", st.releases_with_waiters);
        bump("resumed_completed", st.resumed_completed);
        bump("resumed_panicked", st.resumed_panicked);
        bump("resumed_cancelled", st.resumed_cancelled);
        if st.blocks > 0 {
            bump("traces_with_waiting", 1);
        }
        if let Err(m) = r {
            viol(&format!("protocol:{}", sc.name), m);
        }
        // layer 3: the same trace replayed on the model of the protocol
        match crate::pmodel::conform::replay(&trace) {
            Ok(n) => {
                bump("model_states_compared_with_real_state", n);
                bump("traces_replayed_on_model", 1);
            }
            Err(m) => viol(&format!("protocol-model-divergence:{}", sc.name), m),
        }
    }
}

pub fn run_worker(spec: &E2Spec, w: usize, n: usize) -> WorkerOut {
    let mut out = WorkerOut::default();
    let worker_start = std::time::Instant::now();
    #[cfg(feature = "hooks")]
    let proto_on = spec.id == "C19";
    #[cfg(feature = "hooks")]
    if proto_on {
        crate::proto::install_sink();
    }
    for sc in &spec.scens {
        #[cfg(feature = "memchk")]
        if spec.id == "C23" {
            let _ = std::fs::write(
                crate::evid::verif_root().join("target").join(format!("c23-progress-{w}.json")),
                serde_json::to_string(&json!({"engine": "e2-mem", "config": "memconc", "scenario": sc, "part": [w, n]})).unwrap(),
            );
        }
        let sc2 = sc.clone();
        // per-scenario cap, and a total budget per worker (5 x the scenario cap): what does not
        // fit is reported as a cap hit, never silently dropped
        let left = (spec.cap_s * 5).saturating_sub(worker_start.elapsed().as_secs());
        if left == 0 {
            out.stats.cap_hit = true;
            out.stats.bump("scenarios_not_started_within_the_time_budget", 1);
            continue;
        }
        let cfg = Config {
            bound: sc.bound,
            partition: Some((w, n)),
            time_cap: Some(Duration::from_secs(spec.cap_s.min(left))),
            ..Config::default()
        };
        let nontrivial_before = out.stats.counters.get("nontrivial_schedules").copied().unwrap_or(0);
        #[cfg(feature = "hooks")]
        let rep = shuttle::explore(cfg, move || exec_with_proto(&sc2, proto_on));
        #[cfg(not(feature = "hooks"))]
        let rep = shuttle::explore(cfg, move || scen_body(&sc2));
        out.stats.executions += rep.schedules;
        out.stats.states += rep.states;
        out.stats.transitions += rep.transitions;
        out.stats.checks += rep.schedules;
        out.stats.cap_hit |= rep.cap_hit;
        let e = out.stats.maxima.entry("scheduling_points_per_execution".into()).or_insert(0);
        *e = (*e).max(rep.max_points as u64);
        for (k, v) in COUNTERS.lock().unwrap().drain(..) {
            out.stats.bump(&k, v);
        }
        let mut distinct = std::collections::BTreeSet::new();
        for o in OUTCOMES.lock().unwrap().drain(..) {
            distinct.insert(o.clone());
            out.stats.outcome(&o);
        }
        out.stats.nontrivial += out.stats.counters.get("nontrivial_schedules").copied().unwrap_or(0) - nontrivial_before;
        if out.stats.samples.len() < 2 && w == 0 {
            out.stats.samples.push(json!({"scenario": sc.name, "threads": format!("{:?}", sc.threads), "bound": sc.bound,
                "schedules_in_this_partition": rep.schedules, "points_in_longest_execution": rep.max_points}));
        }
        let mut seen = std::collections::BTreeSet::new();
        for (sig, what, schedule) in VIOLS.lock().unwrap().drain(..) {
            if spec.id == "C23" && !sig.starts_with("memory-") {
                // value oracles of the borrowed harnesses belong to their own properties
                continue;
            }
            // (salsa's own assertion that a wait never closes a cycle is a protocol verdict too)
            let sig = if spec.id == "C19" && what.contains("!self.depends_on(to_id, from_id)") { format!("protocol-assert:{}", sc.name) } else { sig };
            if spec.id == "C19" && !sig.starts_with("protocol") {
                // value oracles of the borrowed harnesses belong to their own properties
                continue;
            }
            let sig = format!("{}:{}", spec.id, sig);
            if seen.insert(sig.clone()) {
                out.viols.push(Viol {
                    property: spec.id.to_string(),
                    signature: sig,
                    what,
                    case: json!({"engine": "e2", "config": "conc", "scenario": sc, "schedule": schedule}),
                });
            }
        }
        // (C23 borrows the harnesses for their memory behaviour; deadlocks etc. are reported by
        // the properties that own them)
        if let Some(f) = rep.failure.filter(|_| spec.id != "C23") {
            let (sig, what, schedule) = match &f {
                Failure::Deadlock { schedule, blocked } => ("deadlock", format!("deadlock: blocked threads {blocked:?}"), schedule.clone()),
                Failure::Livelock { schedule, steps } => ("livelock", format!("no termination within {steps} scheduling points"), schedule.clone()),
                Failure::RootPanic { schedule, message } => ("root-panic", format!("panic escaped the harness body: {message}"), schedule.clone()),
                Failure::Nondeterminism { .. } | Failure::Hang { .. } => {
                    eprintln!("MACHINERY: engine failure in scenario {}: {f:?}", sc.name);
                    std::process::exit(2);
                }
            };
            out.viols.push(Viol {
                property: spec.id.to_string(),
                signature: format!("{}:{}:{}", spec.id, sig, sc.name),
                what,
                case: json!({"engine": "e2", "config": "conc", "scenario": sc, "schedule": schedule}),
            });
            // an engine-level failure leaves parked threads behind: stop this worker here
            break;
        }
    }
    out
}

/// Replay one recorded schedule of a scenario; returns the violation found, if any.
pub fn replay_case(case: &serde_json::Value, proto_on: bool, only_prefix: Option<&str>) -> Option<Option<String>> {
    let sc: Scen = serde_json::from_value(case.get("scenario")?.clone()).ok()?;
    let schedule: Vec<u32> = serde_json::from_value(case.get("schedule")?.clone()).ok()?;
    VIOLS.lock().unwrap().clear();
    #[cfg(feature = "hooks")]
    if proto_on {
        crate::proto::install_sink();
    }
    let sc2 = sc.clone();
    // warm the process-global lazies exactly as the explorer does
    for _ in 0..3 {
        let sc3 = sc.clone();
        let _ = shuttle::replay(move || scen_body(&sc3), &[], sc.bound);
    }
    VIOLS.lock().unwrap().clear();
    OUTCOMES.lock().unwrap().clear();
    #[cfg(feature = "hooks")]
    let f = shuttle::replay(move || exec_with_proto(&sc2, proto_on), &schedule, u32::MAX);
    #[cfg(not(feature = "hooks"))]
    let f = shuttle::replay(move || scen_body(&sc2), &schedule, u32::MAX);
    let v = VIOLS.lock().unwrap().drain(..).find(|v| (!proto_on || v.0.starts_with("protocol") || v.1.contains("!self.depends_on(to_id, from_id)")) && only_prefix.is_none_or(|p| v.0.starts_with(p)));
    match (f, v) {
        (Some(Failure::Nondeterminism { .. }), _) | (Some(Failure::Hang { .. }), _) => None,
        (Some(f), _) => Some(Some(format!("{f:?}"))),
        (None, Some((sig, what, _))) => Some(Some(format!("{sig}: {what}"))),
        (None, None) => Some(None),
    }
}

// ------------------------------------------------------------------------------------------------
// engine self-tests (litmus bodies with known outcomes)

pub fn litmus() -> Result<Stats, String> {
    use shuttle::sync::atomic::{AtomicUsize, Ordering};
    use shuttle::sync::{Condvar, Mutex as CMutex};
    let mut st = Stats::default();
    static LOST: std::sync::atomic::AtomicU64 = std::sync::atomic::AtomicU64::new(0);

    // 1. lost update on load;store must be found with one preemption
    LOST.store(0, std::sync::atomic::Ordering::SeqCst);
    let rep = shuttle::explore(Config { bound: 1, ..Config::default() }, || {
        let n = Arc::new(AtomicUsize::new(0));
        let hs: Vec<_> = (0..2)
            .map(|_| {
                let n = n.clone();
                shuttle::thread::spawn(move || {
                    let v = n.load(Ordering::SeqCst);
                    n.store(v + 1, Ordering::SeqCst);
                })
            })
            .collect();
        for h in hs {
            h.join().unwrap();
        }
        if n.load(Ordering::SeqCst) != 2 {
            LOST.fetch_add(1, std::sync::atomic::Ordering::SeqCst);
        }
    });
    if rep.failure.is_some() || LOST.load(std::sync::atomic::Ordering::SeqCst) == 0 {
        return Err(format!("litmus 1 (lost update) not found: {rep:?}"));
    }
    st.executions += rep.schedules;
    st.states += rep.states;
    st.transitions += rep.transitions;
    st.outcome("litmus1:lost-update-found");

    // 1b. with bound 0 it must NOT be found (no preemption = threads run to completion in turn)
    LOST.store(0, std::sync::atomic::Ordering::SeqCst);
    let rep = shuttle::explore(Config { bound: 0, ..Config::default() }, || {
        let n = Arc::new(AtomicUsize::new(0));
        let hs: Vec<_> = (0..2)
            .map(|_| {
                let n = n.clone();
                shuttle::thread::spawn(move || {
                    let v = n.load(Ordering::SeqCst);
                    n.store(v + 1, Ordering::SeqCst);
                })
            })
            .collect();
        for h in hs {
            h.join().unwrap();
        }
        if n.load(Ordering::SeqCst) != 2 {
            LOST.fetch_add(1, std::sync::atomic::Ordering::SeqCst);
        }
    });
    if rep.failure.is_some() || LOST.load(std::sync::atomic::Ordering::SeqCst) != 0 {
        return Err(format!("litmus 1b (bound 0) wrong: {rep:?}"));
    }
    st.executions += rep.schedules;

    // 2. mutex-protected increment: never lost, for bound 3
    LOST.store(0, std::sync::atomic::Ordering::SeqCst);
    let rep = shuttle::explore(Config { bound: 3, ..Config::default() }, || {
        let n = Arc::new(CMutex::new(0usize));
        let hs: Vec<_> = (0..3)
            .map(|_| {
                let n = n.clone();
                shuttle::thread::spawn(move || {
                    let mut g = n.lock().unwrap();
                    let v = *g;
                    *g = v + 1;
                })
            })
            .collect();
        for h in hs {
            h.join().unwrap();
        }
        if *n.lock().unwrap() != 3 {
            LOST.fetch_add(1, std::sync::atomic::Ordering::SeqCst);
        }
    });
    if rep.failure.is_some() || LOST.load(std::sync::atomic::Ordering::SeqCst) != 0 {
        return Err(format!("litmus 2 (mutex) wrong: {rep:?}"));
    }
    st.executions += rep.schedules;
    st.states += rep.states;
    st.transitions += rep.transitions;
    st.outcome("litmus2:mutex-protects");

    // 3. AB/BA lock order must deadlock under some schedule
    let rep = shuttle::explore(Config { bound: 1, ..Config::default() }, || {
        let a = Arc::new(CMutex::new(0));
        let b = Arc::new(CMutex::new(0));
        let (a2, b2) = (a.clone(), b.clone());
        let h = shuttle::thread::spawn(move || {
            let _x = a2.lock().unwrap();
            let _y = b2.lock().unwrap();
        });
        {
            let _y = b.lock().unwrap();
            let _x = a.lock().unwrap();
        }
        h.join().unwrap();
    });
    if !matches!(rep.failure, Some(Failure::Deadlock { .. })) {
        return Err(format!("litmus 3 (AB/BA deadlock) not found: {rep:?}"));
    }
    st.executions += rep.schedules;
    st.outcome("litmus3:deadlock-found");

    // 4. condvar wait without predicate re-check: lost wake-up => deadlock under some schedule
    let rep = shuttle::explore(Config { bound: 1, ..Config::default() }, || {
        let pair = Arc::new((CMutex::new(false), Condvar::new()));
        let p2 = pair.clone();
        let h = shuttle::thread::spawn(move || {
            // signal without holding the lock across the flag update
            *p2.0.lock().unwrap() = true;
            p2.1.notify_one();
        });
        {
            let flag = *pair.0.lock().unwrap();
            if !flag {
                // BUG: the flag may be set and notified between the check and the wait
                let g = pair.0.lock().unwrap();
                let _g = pair.1.wait(g).unwrap();
            }
        }
        h.join().unwrap();
    });
    if !matches!(rep.failure, Some(Failure::Deadlock { .. })) {
        return Err(format!("litmus 4 (lost wake-up) not found: {rep:?}"));
    }
    st.executions += rep.schedules;
    st.outcome("litmus4:lost-wakeup-found");

    // 4b. the correct version (predicate loop under the lock) never deadlocks
    let rep = shuttle::explore(Config { bound: 3, ..Config::default() }, || {
        let pair = Arc::new((CMutex::new(false), Condvar::new()));
        let p2 = pair.clone();
        let h = shuttle::thread::spawn(move || {
            *p2.0.lock().unwrap() = true;
            p2.1.notify_one();
        });
        {
            let mut g = pair.0.lock().unwrap();
            while !*g {
                g = pair.1.wait(g).unwrap();
            }
        }
        h.join().unwrap();
    });
    if rep.failure.is_some() {
        return Err(format!("litmus 4b (correct condvar use) failed: {rep:?}"));
    }
    st.executions += rep.schedules;
    st.outcome("litmus4b:correct-condvar-ok");

    // 5. a panic inside a thread is captured by join, the others proceed; `panicking()` is per thread
    static SAW: std::sync::atomic::AtomicU64 = std::sync::atomic::AtomicU64::new(0);
    SAW.store(0, std::sync::atomic::Ordering::SeqCst);
    let rep = shuttle::explore(Config { bound: 2, ..Config::default() }, || {
        let m = Arc::new(CMutex::new(0));
        let m2 = m.clone();
        let h = shuttle::thread::spawn(move || {
            let _g = m2.lock().unwrap();
            std::panic::panic_any(7u32);
        });
        let other_panicking = std::thread::panicking();
        let r = h.join();
        let v = *m.lock().unwrap();
        if r.is_err() && !other_panicking && v == 0 {
            SAW.fetch_add(1, std::sync::atomic::Ordering::SeqCst);
        }
    });
    if rep.failure.is_some() || SAW.load(std::sync::atomic::Ordering::SeqCst) != rep.schedules + 3 {
        return Err(format!("litmus 5 (panic isolation) wrong: {rep:?} saw={}", SAW.load(std::sync::atomic::Ordering::SeqCst)));
    }
    st.executions += rep.schedules;
    st.outcome("litmus5:panic-isolated");

    // 6. replaying one recorded schedule twice gives identical observations
    let obs = Arc::new(std::sync::Mutex::new(Vec::<(Vec<u32>, usize)>::new()));
    let mk_body = |obs: Arc<std::sync::Mutex<Vec<(Vec<u32>, usize)>>>| {
        move || {
            let n = Arc::new(AtomicUsize::new(0));
            let hs: Vec<_> = (0..2)
                .map(|i| {
                    let n = n.clone();
                    shuttle::thread::spawn(move || {
                        let v = n.load(Ordering::SeqCst);
                        n.store(v * 2 + i + 1, Ordering::SeqCst);
                    })
                })
                .collect();
            for h in hs {
                h.join().unwrap();
            }
            let v = n.load(Ordering::SeqCst);
            obs.lock().unwrap().push((shuttle::current_schedule(), v));
        }
    };
    let rep = shuttle::explore(Config { bound: 2, ..Config::default() }, mk_body(obs.clone()));
    if rep.failure.is_some() {
        return Err(format!("litmus 6 exploration failed: {rep:?}"));
    }
    let all = obs.lock().unwrap().clone();
    let distinct: std::collections::BTreeSet<usize> = all.iter().map(|x| x.1).collect();
    if distinct.len() < 3 {
        return Err(format!("litmus 6: expected >= 3 distinct outcomes, got {distinct:?}"));
    }
    for (sched, val) in all.iter().rev().take(5) {
        obs.lock().unwrap().clear();
        let f1 = shuttle::replay(mk_body(obs.clone()), sched, u32::MAX);
        let f2 = shuttle::replay(mk_body(obs.clone()), sched, u32::MAX);
        let o = obs.lock().unwrap().clone();
        if f1.is_some() || f2.is_some() || o.len() != 2 || o[0].1 != *val || o[1].1 != *val {
            return Err(format!("litmus 6 (replay determinism) wrong: {f1:?} {f2:?} {o:?} expected {val}"));
        }
    }
    st.executions += rep.schedules;
    st.outcome("litmus6:replay-deterministic");
    st.checks = 8;
    st.nontrivial = 8;
    st.samples.push(json!("litmus bodies: lost update (k=1 found, k=0 not), mutex increment, AB/BA deadlock, lost wake-up, panic isolation, replay determinism"));
    Ok(st)
}

#[allow(dead_code)]
pub fn is_cancel(p: &Pk) -> bool {
    matches!(p, Pk::CancelLocal | Pk::CancelPendingWrite | Pk::CancelPropagated)
}
