//! Property registry: which engine / programs / alphabet / oracle decides which property.

use std::sync::Arc;

use serde_json::{Value, json};

use crate::e1::{self, Case, Spec, WorkerOut};
#[allow(unused_imports)]
use ql::ex::Op;
use crate::evid::{Stats, Viol};
use crate::mon::Flags;
use crate::progs;

pub struct Meta {
    pub engine: &'static str,
    pub config: &'static str,
    pub rule: &'static str,
    pub bounds: Value,
    pub assumptions: Vec<String>,
    pub extra: Value,
    pub max_workers: usize,
    pub pin_workers: bool,
}

pub enum Confirm {
    Reproduced,
    NotReproduced,
}

const RULE_E1: &str = "every history of the stated depth over the property's operation alphabet, for every listed program, each run on a fresh real salsa database; every oracle evaluated after every operation. states = distinct history prefixes, transitions = prefix extensions, traces_validated = complete histories executed on the real code and compared step by step with the reference interpreter. A history is non-trivial when salsa both validated a memo without executing it and re-executed some function in it.";

fn base_assumptions() -> Vec<String> {
    vec![
        "bounded: programs, value domains and history depth as listed in coverage.bounds".into(),
        "the reference interpreter (ql/src/refm.rs) defines the expected from-scratch results".into(),
        "harness functions are deterministic; op arithmetic is shared between salsa bodies and reference".into(),
    ]
}

/// C03: a tracked struct whose creator's durability is raised or lowered by writes; a function
/// that reads only a field whose value stays equal must be reused after a raise.
#[cfg(not(feature = "conc"))]
fn c03_dur_structs() -> Vec<ql::ex::Program> {
    use ql::ex::Dur::*;
    vec![progs::dur_struct(Low, Low, Low), progs::dur_struct(High, Low, High), progs::dur_struct(Medium, High, High)]
}

#[cfg(not(feature = "conc"))]
pub fn e1_spec(id: &str, tier: &str) -> Option<Spec> {
    let quick = tier == "quick";
    let cap = if quick { 50 } else { 1500 };
    match id {
        "C01" => Some(Spec {
            id: "C01",
            programs: if quick {
                progs::quick_p3()
            } else {
                let mut v = progs::all_p3();
                v.extend(progs::p4_set());
                v
            },
            depth: if quick { 4 } else { 5 },
            alphabet: Box::new(progs::base_alphabet),
            flags: Flags { values: true, fresh_end: true, fresh_each: !quick, ..Flags::default() },
            rule: RULE_E1,
            cap_s: cap,
            config: "seq",
            assumptions: base_assumptions(),
        }),
        "C02" => Some(Spec {
            id: "C02",
            programs: {
                use ql::ex::Dur::*;
                let base = if quick {
                    vec![progs::p3(1, 0, 1), progs::p3(5, 3, 2), progs::p3(5, 4, 3), progs::p3(1, 5, 0), progs::p3(4, 6, 6), progs::p3(3, 7, 1)]
                } else {
                    progs::quick_p3()
                };
                let mut v = Vec::new();
                for p in base {
                    for (d0, d1, dc) in [(Low, High, High), (High, Low, Medium), (Medium, High, Never), (High, High, High)] {
                        v.push(progs::with_durs(p.clone(), d0, d1, dc));
                    }
                }
                for (d0, d1, dc) in [(High, High, High), (High, Low, High), (Medium, High, High)] {
                    v.push(progs::dur_struct(d0, d1, dc));
                }
                v
            },
            depth: 4,
            alphabet: Box::new(progs::dur_alphabet),
            flags: Flags { values: true, fresh_end: true, needs_pre_world: true, ..Flags::default() },
            rule: RULE_E1,
            cap_s: cap,
            config: "seq",
            assumptions: base_assumptions(),
        }),
        "C03" => Some(Spec {
            id: "C03",
            programs: if quick {
                let mut v = progs::quick_p3();
                v.extend(progs::durq_set());
                v.extend(c03_dur_structs());
                v.extend(progs::backdate_chain());
                v
            } else {
                let mut v = progs::all_p3();
                v.extend(progs::p4_set());
                v.extend(progs::durq_set());
                v.extend(c03_dur_structs());
                v.extend(progs::backdate_chain());
                v
            },
            depth: if quick { 4 } else { 5 },
            // (the struct programs are explored with durability-changing writes)
            alphabet: Box::new(|p: &ql::ex::Program| if p.name.starts_with("dur-struct") { progs::dur_alphabet(p) } else { progs::base_alphabet(p) }),
            flags: Flags { values: true, justify: true, needs_pre_world: true, ..Flags::default() },
            rule: RULE_E1,
            cap_s: cap,
            config: "seq",
            assumptions: {
                let mut a = base_assumptions();
                a.push("the justification monitor is an only-if oracle: anything it cannot classify counts as justified".into());
                a
            },
        }),
        "C04" => Some(Spec {
            id: "C04",
            programs: progs::untracked_set(),
            depth: if quick { 4 } else { 6 },
            alphabet: Box::new(progs::untracked_alphabet),
            flags: Flags { values: true, must_exec: true, justify: true, ..Flags::default() },
            rule: RULE_E1,
            cap_s: cap,
            config: "seq",
            assumptions: base_assumptions(),
        }),
        "C05" => Some(Spec {
            id: "C05",
            programs: progs::lru_set(),
            depth: if quick { 5 } else { 6 },
            alphabet: Box::new(progs::lru_alphabet),
            flags: Flags { values: true, lru: true, lru_twin: true, justify: true, fresh_end: true, ..Flags::default() },
            rule: RULE_E1,
            cap_s: cap,
            config: "seq",
            assumptions: {
                let mut a = base_assumptions();
                a.push("the number of cached results is observed through Database::memory_usage (heap_size = 1 per value); recency is modelled over fetches (top level and from bodies)".into());
                a
            },
        }),
        "C06" => Some(Spec {
            id: "C06",
            programs: progs::struct_set(),
            depth: if quick { 5 } else { 6 },
            alphabet: Box::new(progs::struct_alphabet),
            flags: Flags { values: true, ident: true, justify: true, fresh_end: true, ..Flags::default() },
            rule: RULE_E1,
            cap_s: cap,
            config: "seq",
            assumptions: {
                let mut a = base_assumptions();
                a.push("for the colliding-hash struct type, identity stability is asserted only while the sequence of creations is unchanged (salsa disambiguates per hash of the identity fields)".into());
                a
            },
        }),
        "C07" => Some(Spec {
            id: "C07",
            programs: {
                let mut v = progs::churn_struct_set();
                if quick {
                    // the largest alphabet: one operation less in the quick tier
                    for p in v.iter_mut().filter(|p| p.name.contains("colliding")) {
                        p.name = format!("shallow-{}", p.name);
                    }
                }
                v.push(progs::intern_prog(1));
                if !quick {
                    // (revisions = 2 and 3 in the thorough tier; C09 quick explores them too)
                    v.push(progs::intern_prog(2));
                    v.push(progs::intern_prog(3));
                }
                v
            },
            depth: if quick { 6 } else { 7 },
            alphabet: Box::new(|p: &ql::ex::Program| if p.name.contains("churn") { progs::churn_struct_alphabet(p) } else { progs::intern_alphabet_full(p) }),
            flags: Flags { values: true, alias: true, justify: true, fresh_end: true, ..Flags::default() },
            rule: RULE_E1,
            cap_s: cap,
            config: "seq",
            assumptions: base_assumptions(),
        }),
        "C09" => Some(Spec {
            id: "C09",
            programs: vec![progs::intern_prog(1), progs::intern_prog(2), progs::intern_prog(3), progs::intern_prog(0)],
            depth: if quick { 7 } else { 9 },
            alphabet: Box::new(progs::intern_alphabet_small),
            flags: Flags { values: true, intern: true, alias: true, ..Flags::default() },
            rule: RULE_E1,
            cap_s: cap,
            config: "seq",
            assumptions: {
                let mut a = base_assumptions();
                a.push("interning functions are uniformly LOW or uniformly HIGH (the statement's 'functions whose inputs all had LOW durability' and the code's 'stamp durability at interning time' coincide there)".into());
                a
            },
        }),
        "C08" => Some(Spec {
            id: "C08",
            programs: vec![progs::intern_canon_prog(1), progs::intern_canon_prog(3), progs::intern_canon_prog(0)],
            depth: if quick { 6 } else { 7 },
            alphabet: Box::new(progs::intern_canon_alphabet),
            flags: Flags { values: true, intern: true, ..Flags::default() },
            rule: RULE_E1,
            cap_s: cap,
            config: "seq",
            assumptions: base_assumptions(),
        }),
        "C10" => Some(Spec {
            id: "C10",
            programs: progs::specify_set(),
            depth: if quick { 5 } else { 7 },
            alphabet: Box::new(progs::specify_alphabet),
            flags: Flags { values: true, specify: true, fresh_end: true, ..Flags::default() },
            rule: RULE_E1,
            cap_s: cap,
            config: "seq",
            assumptions: base_assumptions(),
        }),
        "C11" => Some(Spec {
            id: "C11",
            programs: progs::acc_set(),
            depth: if quick { 5 } else { 6 },
            alphabet: Box::new(progs::acc_alphabet),
            flags: Flags { values: true, acc: true, ..Flags::default() },
            rule: RULE_E1,
            cap_s: cap,
            config: "seq",
            assumptions: {
                let mut a = base_assumptions();
                a.push("reference order: pre-order over the calls of a from-scratch evaluation, first visit only, a function's own values before its callees' (the order accumulated_by documents); for the program that pushes after calls only the multiset is compared".into());
                a
            },
        }),
        "C14" => Some(Spec {
            id: "C14",
            programs: progs::plain_cycle_set(),
            depth: if quick { 5 } else { 6 },
            alphabet: Box::new(progs::plain_cycle_alphabet),
            flags: Flags { values: true, cycle_panic: true, ..Flags::default() },
            rule: RULE_E1,
            cap_s: cap,
            config: "seq",
            assumptions: {
                let mut a = base_assumptions();
                a.push("operational oracle: a call to a function without cycle handling made while that function is live on the caller's stack must end the request in a cycle panic; a returned value must equal the least fixpoint of all equations; a cycle panic without an observed re-entry (e.g. during validation) is accepted".into());
                a
            },
        }),
        "C22" => Some(Spec {
            id: "C22",
            programs: {
                let mut v = vec![
                    progs::p3(1, 0, 1),
                    progs::p3(5, 5, 3),
                    progs::p3(4, 6, 6),
                    progs::p3(4, 2, 7),
                    progs::p3(3, 7, 1),
                    progs::p3(1, 1, 8),
                    progs::p3(2, 4, 9),
                ];
                // (the lru variant is the same program with another alphabet: not needed here)
                v.extend(progs::struct_set().into_iter().filter(|p| !p.name.ends_with("-lru")));
                v.extend(progs::churn_struct_set());
                v.push(progs::intern_prog(1));
                v.extend(progs::specify_set().into_iter().take(1));
                for k in [ql::ex::Kind::Fx, ql::ex::Kind::Fxj, ql::ex::Kind::Fb] {
                    v.push(progs::cyc2(k));
                    v.push(progs::nested3(k));
                    v.push(progs::cond_cycle(k));
                }
                v.push(progs::head_flag_cycle(ql::ex::Kind::Fx));
                v.push(progs::head_flag_cycle(ql::ex::Kind::Fxj));
                v.push(progs::head_flag_cycle_hi(ql::ex::Kind::Fx));
                v.push(progs::head_flag_cycle_hi(ql::ex::Kind::Fxj));
                v
            },
            depth: if quick { 2 } else { 3 },
            alphabet: Box::new(|p: &ql::ex::Program| {
                let mut a = vec![Op::Set(0, 1), Op::Set(1, 1), Op::Set(0, 0), Op::Set(1, 0)];
                for n in 0..p.nodes.len() as u8 {
                    a.push(Op::Q(n));
                }
                a
            }),
            flags: Flags { values: true, ..Flags::default() },
            rule: "every history of the stated depth (followed by a new revision and a request of every node) x every user-code callback point reached in it (function body entry / between reads / exit, cycle_initial, cycle_fn, cycle_result, PartialEq of results and tracked fields, Hash/Eq of identity and interned fields, heap_size, every event callback): the history is re-run on a fresh database with a marker panic injected at exactly that point. states = histories, transitions = injected runs, a run is non-trivial when the injection fired.",
            cap_s: cap,
            config: "seq",
            assumptions: {
                let mut a = base_assumptions();
                a.push("injection is suppressed while the thread is already unwinding (a second panic would abort the process)".into());
                a.push("in the revision of the panic a function that depends on a cycle may answer with a propagated panic; in any later revision every answer must equal the reference".into());
                a
            },
        }),
        #[cfg(feature = "persist")]
        "C26" => Some(Spec {
            id: "C26",
            programs: progs::persist_set(),
            depth: if quick { 4 } else { 5 },
            alphabet: Box::new(progs::persist_alphabet),
            flags: Flags { values: true, persist: true, justify: true, fresh_end: true, ..Flags::default() },
            rule: RULE_E1,
            cap_s: cap,
            config: "persist",
            assumptions: {
                let mut a = base_assumptions();
                a.push("RoundTrip = serde_json serialization of the whole database followed by deserialization into a fresh database on which the history continues".into());
                a
            },
        }),
        "C12" | "C13" => {
            use ql::ex::Kind;
            let c13 = id == "C13";
            let kinds: Vec<Kind> = if c13 { vec![Kind::Fb] } else { vec![Kind::Fx, Kind::Fxj] };
            let mut programs = Vec::new();
            for k in kinds {
                if !c13 {
                    programs.extend(progs::lazy_input_cycles(k));
                    // a head that calls a participant only in its first iteration
                    let mut vd = progs::vdep_cycle(k);
                    vd.nodes[0].alt = Some(ql::ex::Ex::or(ql::ex::Ex::Call(1), ql::ex::Ex::K(4)));
                    programs.push(vd);
                }
                if quick {
                    programs.extend(progs::quick_cyc(k, if c13 { 140 } else { 280 }));
                } else {
                    programs.extend(progs::quick_cyc(k, 1_000_000).into_iter().take(14));
                    programs.extend(progs::all_cyc(k));
                }
            }
            Some(Spec {
                id: if c13 { "C13" } else { "C12" },
                programs,
                depth: 4,
                alphabet: Box::new(progs::cyc_alphabet),
                flags: Flags { values: true, fresh_end: true, ..Flags::default() },
                rule: RULE_E1,
                cap_s: cap,
                config: "seq",
                assumptions: {
                    let mut a = base_assumptions();
                    a.push(if c13 {
                        "reference: SCC analysis of the input-determined call graph; all operands of an operator are evaluated, branches depend on inputs only".into()
                    } else {
                        "reference: Kleene iteration from bottom over the bit-set lattice; all bodies are monotone (join, meet, input masks, input-controlled branches)".into()
                    });
                    a
                },
            })
        }
        "C15" => Some(Spec {
            id: "C15",
            programs: {
                // the two systems with a plain dependent of the head are also explored one
                // operation deeper (converge, memoize the dependent, diverge, converge again and
                // enter through the dependent)
                let mut v = progs::nonconv_set();
                for name in ["nc-cond-diverges", "nc-succ-self"] {
                    if let Some(p) = v.iter().find(|p| p.name == name).cloned() {
                        let mut p = p;
                        p.name = format!("deep-{}", p.name);
                        v.push(p);
                    }
                }
                v
            },
            depth: if quick { 5 } else { 6 },
            alphabet: Box::new(progs::nonconv_alphabet),
            flags: Flags { values: true, iter_bound: true, ..Flags::default() },
            rule: RULE_E1,
            cap_s: cap,
            config: "seq",
            assumptions: {
                let mut a = base_assumptions();
                a.push("the generated systems have no fixpoint at all over the value domain (checked by brute force at start-up), so no iteration scheme can converge".into());
                a
            },
        }),
        _ => None,
    }
}

#[cfg(feature = "conc")]
pub fn e1_spec(_id: &str, _tier: &str) -> Option<Spec> {
    None
}

#[cfg(feature = "conc")]
const RULE_E2: &str = "every thread interleaving of the listed scenarios with at most `bound` preemptions (iterative context bounding, depth-first by re-execution from a fresh database), scheduling points at every atomic operation, mutex acquisition, condvar wait/notify, spawn, join and thread end of salsa's sync shim (real OS threads, one running at a time). states = search-tree nodes, transitions = scheduling decisions executed, traces_validated = complete schedules whose observations were compared with the reference. A schedule is non-trivial when at least two threads executed query bodies or one thread blocked on another.";

#[cfg(feature = "conc")]
fn e2_assumptions() -> Vec<String> {
    vec![
        "sequentially consistent interleavings only (no weak-memory behaviours)".into(),
        "operations of third-party lock-free code not routed through salsa's sync shim (boxcar, crossbeam SegQueue, std OnceLock in function.rs, and - except in C21, hook H3 - the std AtomicU8 of CancellationToken) execute atomically between scheduling points".into(),
        "no spurious condvar wake-ups; preemption bound and scenario set as listed in coverage.bounds".into(),
    ]
}

#[cfg(feature = "conc")]
pub fn e2_spec(id: &str, tier: &str) -> Option<crate::e2::E2Spec> {
    use crate::e2::{E2Spec, Oracle, Scen};
    use ql::ex::{Kind, Op};
    let quick = tier == "quick";
    // seconds per scenario per worker; the total budget per worker is 5 x this
    let cap = if quick { 40 } else { 300 };
    let q = |n: u8| Op::Q(n);
    let dag_progs = || {
        vec![
            progs::p3(1, 0, 1), // diamond over a cell
            progs::p3(5, 3, 2), // input-dependent branch
            progs::p3(5, 5, 3), // value-dependent branch
            progs::p3(4, 6, 6), // tracked struct + function on it
            progs::p3(3, 7, 1), // interning
            progs::p3(1, 2, 4), // multi-argument keys
            progs::p3(2, 0, 5), // untracked leaf + zero-arg function
            progs::p3(4, 2, 7), // struct fields + identity
        ]
    };
    let assignments2 = || vec![vec![vec![q(2)], vec![q(2)]], vec![vec![q(2)], vec![q(1)]], vec![vec![q(1), q(2)], vec![q(0), q(2)]]];
    let assignments3 = || vec![vec![vec![q(2)], vec![q(2)], vec![q(1)]], vec![vec![q(2)], vec![q(1)], vec![q(0)]]];
    match id {
        "C16" | "C17" => {
            let once = id == "C17";
            let mut scens = Vec::new();
            for p in dag_progs() {
                for (ai, th) in assignments2().into_iter().enumerate() {
                    // single revision, deeper bound
                    scens.push(Scen {
                        name: format!("{}-2t-a{}", p.name, ai),
                        prog: p.clone(),
                        setup: vec![],
                        threads: th.clone(),
                        phase2_writes: vec![],
                        phase2: false,
                        bound: if quick { 2 } else { 3 },
                        oracle: if once { Oracle::Once } else { Oracle::Readers },
                        writer: vec![],
                    });
                    if once {
                        // two revisions (write between the phases), one preemption less
                        scens.push(Scen {
                            name: format!("{}-2t-a{}-2rev", p.name, ai),
                            prog: p.clone(),
                            setup: vec![],
                            threads: th,
                            phase2_writes: vec![Op::Set(0, 1)],
                            phase2: true,
                            bound: if quick { 1 } else { 2 },
                            oracle: Oracle::Once,
                            writer: vec![],
                        });
                    }
                }
                if !quick || p.name == "p3-1-0-1" || p.name == "p3-4-6-6" {
                    for (ai, th) in assignments3().into_iter().enumerate() {
                        scens.push(Scen {
                            name: format!("{}-3t-a{}", p.name, ai),
                            prog: p.clone(),
                            setup: vec![],
                            threads: th,
                            phase2_writes: vec![Op::Set(0, 1)],
                            phase2: once && !quick,
                            bound: if quick { 1 } else { 2 },
                            oracle: if once { Oracle::Once } else { Oracle::Readers },
                            writer: vec![],
                        });
                    }
                }
            }
            // two different functions on the same (fresh) struct instance: their first memos are
            // inserted into the instance's lazily allocated memo table concurrently
            {
                let p = progs::struct_set().remove(0);
                let a = Op::QOnTs(0, 0, 0);
                let b = Op::QOnTs(0, 0, 1);
                scens.push(Scen {
                    name: "two-fns-on-one-tracked-struct".into(),
                    prog: p,
                    setup: vec![Op::Q(0)],
                    threads: vec![vec![a.clone(), b.clone()], vec![b, a]],
                    phase2_writes: vec![],
                    phase2: false,
                    bound: if quick { 2 } else { 3 },
                    oracle: if once { Oracle::Once } else { Oracle::Readers },
                    writer: vec![],
                });
                let p = progs::p3(1, 0, 1);
                let a = Op::QK(0, Kind::Ev);
                let b = Op::QK(0, Kind::NoEq);
                scens.push(Scen {
                    name: "two-fns-on-one-input".into(),
                    prog: p,
                    setup: vec![],
                    threads: vec![vec![a.clone(), b.clone()], vec![b, a]],
                    phase2_writes: vec![],
                    phase2: false,
                    bound: if quick { 2 } else { 3 },
                    oracle: if once { Oracle::Once } else { Oracle::Readers },
                    writer: vec![],
                });
            }
            // readers that create tracked structs through different creators after a short-lived
            // handle left a partially filled struct page behind
            {
                let p = progs::readers_creating_structs();
                scens.push(Scen {
                    name: "creators-after-dropped-handle-2t".into(),
                    prog: p,
                    setup: vec![Op::QClone(4)],
                    threads: vec![vec![q(1), q(3)], vec![q(3), q(1)]],
                    phase2_writes: vec![],
                    phase2: false,
                    bound: if quick { 1 } else { 2 },
                    oracle: if once { Oracle::Once } else { Oracle::Readers },
                    writer: vec![],
                });
            }
            Some(E2Spec {
                id: if once { "C17" } else { "C16" },
                scens,
                cap_s: cap,
                rule: RULE_E2,
                assumptions: e2_assumptions(),
            })
        }
        "C08" => {
            let mut scens = Vec::new();
            for ty in [1u8, 0] {
                let p = progs::intern_canon_prog(ty);
                // one priming revision for the collecting type so that the reuse path races too
                let setup = if ty == 1 { vec![Op::Q(2), Op::Set(0, 1), Op::Set(1, 1), Op::Q(0), Op::Set(0, 0)] } else { vec![] };
                let asg: Vec<Vec<Vec<Op>>> = vec![
                    vec![vec![Op::QInt(ty, 0), Op::QInt(ty, 1)], vec![Op::QInt(ty, 1), Op::QInt(ty, 0)]],
                    vec![vec![Op::Q(0), Op::QInt(ty, 2)], vec![Op::Q(1), Op::QInt(ty, 0)]],
                    vec![vec![Op::Q(2)], vec![Op::QInt(ty, 0), Op::Q(1)]],
                ];
                for (ai, th) in asg.into_iter().enumerate() {
                    scens.push(Scen {
                        name: format!("{}-2t-a{}", p.name, ai),
                        prog: p.clone(),
                        setup: setup.clone(),
                        threads: th,
                        phase2_writes: vec![Op::Set(0, 2)],
                        phase2: !quick,
                        bound: if quick { 2 } else { 3 },
                        oracle: Oracle::Intern,
                    writer: vec![],
                    });
                }
                scens.push(Scen {
                    name: format!("{}-3t", p.name),
                    prog: p.clone(),
                    setup: setup.clone(),
                    threads: vec![vec![Op::QInt(ty, 0)], vec![Op::Q(0)], vec![Op::QInt(ty, 1), Op::QInt(ty, 0)]],
                    phase2_writes: vec![],
                    phase2: false,
                    bound: if quick { 1 } else { 2 },
                    oracle: Oracle::Intern,
                    writer: vec![],
                });
            }
            Some(E2Spec { id: "C08", scens, cap_s: cap, rule: RULE_E2, assumptions: e2_assumptions() })
        }
        "C14" => {
            let mut scens = Vec::new();
            for p in progs::plain_cycle_set() {
                let pure = p.name == "pc-pure" || p.name == "pc-self";
                let entries: Vec<Vec<Vec<Op>>> = if p.name == "pc-three-mixed" {
                    vec![vec![vec![q(0)], vec![q(1)]], vec![vec![q(1)], vec![q(2)]]]
                } else {
                    vec![vec![vec![q(0)], vec![q(1)]], vec![vec![q(1)], vec![q(1)]], vec![vec![q(0), q(2)], vec![q(1)]]]
                };
                for (ai, th) in entries.into_iter().enumerate() {
                    scens.push(Scen {
                        name: format!("{}-2t-a{}", p.name, ai),
                        prog: p.clone(),
                        setup: vec![],
                        threads: th,
                        // the write breaks the cycle; afterwards every request must equal the reference
                        phase2_writes: vec![Op::Set(0, 0)],
                        phase2: true,
                        bound: if quick { 1 } else { 2 },
                        oracle: Oracle::PlainCycle(pure),
                        writer: vec![],
                    });
                }
                if !quick || p.name == "pc-mixed" {
                    scens.push(Scen {
                        name: format!("{}-3t", p.name),
                        prog: p.clone(),
                        setup: vec![],
                        threads: vec![vec![q(0)], vec![q(1)], vec![q(1), q(2)]],
                        phase2_writes: vec![Op::Set(0, 0)],
                        phase2: true,
                        bound: if quick { 0 } else { 1 },
                        oracle: Oracle::PlainCycle(pure),
                        writer: vec![],
                    });
                }
            }
            if quick {
                let p = progs::plain_cycle_set().remove(1);
                scens.push(Scen {
                    name: format!("{}-2t-k2", p.name),
                    prog: p,
                    setup: vec![],
                    threads: vec![vec![q(0)], vec![q(1)]],
                    phase2_writes: vec![],
                    phase2: false,
                    bound: 2,
                    oracle: Oracle::PlainCycle(false),
                    writer: vec![],
                });
            }
            Some(E2Spec { id: "C14", scens, cap_s: cap, rule: RULE_E2, assumptions: e2_assumptions() })
        }
        "C20" => {
            let mut scens = Vec::new();
            let progs_w: Vec<(ql::ex::Program, Vec<Vec<Op>>)> = vec![
                (progs::p3(1, 0, 1), vec![vec![q(2), q(1)], vec![q(2)]]),
                (progs::cyc2(Kind::Fx), vec![vec![q(0)], vec![q(1)]]),
                (progs::nested3(Kind::Fx), vec![vec![q(0)], vec![q(2)]]),
                (progs::cyc2(Kind::Fb), vec![vec![q(0)], vec![q(1)]]),
                (progs::lru_set().remove(0), vec![vec![q(0), q(4)], vec![q(1), q(2)]]),
                (progs::flag_cycle(), vec![vec![q(0)], vec![q(0)]]),
            ];
            for (p, th) in progs_w {
                let writes: Vec<(&str, Vec<Op>)> = if p.name.starts_with("lru") {
                    vec![("lrucap", vec![Op::LruCap(1)]), ("set", vec![Op::Set(0, 1)])]
                } else if p.name.starts_with("flagcyc") {
                    vec![("flag-off", vec![Op::Set(0, 0)])]
                } else {
                    vec![("set", vec![Op::Set(0, 3)]), ("syn", vec![Op::Syn(ql::ex::Dur::Low)]), ("cancel", vec![Op::Cancel])]
                };
                for (wn, w) in writes {
                    if quick && wn == "syn" && p.name.starts_with("nested") {
                        continue;
                    }
                    scens.push(Scen {
                        name: format!("{}-w-{}", p.name, wn),
                        prog: p.clone(),
                        setup: vec![],
                        threads: th.clone(),
                        phase2_writes: vec![],
                        phase2: false,
                        bound: if quick { 1 } else { 2 },
                        oracle: Oracle::Writer,
                        writer: w,
                    });
                }
            }
            Some(E2Spec { id: "C20", scens, cap_s: cap, rule: RULE_E2, assumptions: e2_assumptions() })
        }
        "C21" => {
            let mut scens = Vec::new();
            let ps: Vec<(ql::ex::Program, Vec<Vec<Op>>)> = vec![
                (progs::p3(1, 0, 1), vec![vec![q(2), q(1)], vec![q(2)]]),
                (progs::p3(5, 3, 2), vec![vec![q(2)], vec![q(1)]]),
                (progs::cyc2(Kind::Fx), vec![vec![q(0)], vec![q(1)]]),
                (progs::cond_cycle(Kind::Fx), vec![vec![q(2)], vec![q(0)]]),
            ];
            for (p, th) in ps {
                // A and the cancelling thread only: deeper bound
                scens.push(Scen {
                    name: format!("{}-cancel-solo", p.name),
                    prog: p.clone(),
                    setup: vec![],
                    threads: vec![th[0].clone()],
                    phase2_writes: vec![],
                    phase2: false,
                    bound: if quick { 2 } else { 3 },
                    oracle: Oracle::LocalCancel,
                    writer: vec![],
                });
                // plus a third handle that may wait on the cancelled computation
                scens.push(Scen {
                    name: format!("{}-cancel-with-waiter", p.name),
                    prog: p,
                    setup: vec![],
                    threads: th,
                    phase2_writes: vec![],
                    phase2: false,
                    bound: if quick { 1 } else { 2 },
                    oracle: Oracle::LocalCancel,
                    writer: vec![],
                });
            }
            Some(E2Spec { id: "C21", scens, cap_s: cap, rule: RULE_E2, assumptions: e2_assumptions() })
        }
        #[cfg(feature = "memchk")]
        "C23" => {
            // the schedule sets of the concurrency properties, executed under the allocator
            // monitor; only memory verdicts are reported here
            let mut scens = Vec::new();
            for id in ["C16", "C17", "C18", "C24", "C08"] {
                if quick && id == "C16" {
                    // (C17's scenarios are C16's plus a second revision)
                    continue;
                }
                if let Some(sp) = e2_spec(id, "quick") {
                    let stride = if !quick { 1 } else if id == "C16" || id == "C17" { 8 } else if id == "C08" || id == "C18" { 3 } else { 1 };
                    for (i, mut sc) in sp.scens.into_iter().enumerate() {
                        if i % stride != 0 {
                            continue;
                        }
                        sc.name = format!("{id}/{}", sc.name);
                        scens.push(sc);
                    }
                }
            }
            Some(E2Spec { id: "C23", scens, cap_s: cap, rule: RULE_E2, assumptions: {
                let mut a = e2_assumptions();
                a.push("memory errors are detected through the allocator monitor (red zones, poison, quarantine) and through revalidation of the references each thread received, see the sequential part".into());
                a
            } })
        }
        "C22" => {
            // second half of C22: the panicking computation with a second thread that requests
            // the same or a dependent function; every injection point x every schedule
            let mut scens = Vec::new();
            let bases: Vec<(ql::ex::Program, Vec<Vec<Op>>)> = vec![
                (progs::p3(1, 0, 1), vec![vec![q(2)], vec![q(2)]]),
                (progs::p3(1, 0, 1), vec![vec![q(1)], vec![q(2)]]),
                (progs::p3(5, 3, 2), vec![vec![q(2)], vec![q(1), q(0)]]),
                (progs::cyc2(Kind::Fx), vec![vec![q(0)], vec![q(1)]]),
                (progs::cyc2(Kind::Fx), vec![vec![q(0)], vec![q(0)]]),
            ];
            for (bi, (p, th)) in bases.into_iter().enumerate() {
                let base = Scen {
                    name: format!("{}-fault-{bi}", p.name),
                    prog: p,
                    setup: vec![],
                    threads: th,
                    phase2_writes: vec![],
                    phase2: false,
                    bound: if quick { 1 } else { 2 },
                    oracle: Oracle::Fault(-1),
                    writer: vec![],
                };
                let n = crate::e2::count_points(&base) + 2;
                for i in 0..n as i64 {
                    let mut sc = base.clone();
                    sc.name = format!("{}@{i}", base.name);
                    sc.oracle = Oracle::Fault(i);
                    scens.push(sc);
                }
            }
            Some(E2Spec { id: "C22", scens, cap_s: cap, rule: RULE_E2, assumptions: e2_assumptions() })
        }
        "C24" => {
            let mut scens = Vec::new();
            let p = progs::struct_set().remove(0); // two creators (nodes 0 and 3)
            let pi = progs::intern_canon_prog(1);
            let mk = |name: &str, prog: &ql::ex::Program, setup: Vec<Op>, threads: Vec<Vec<Op>>, bound: u32| Scen {
                name: name.to_string(),
                prog: prog.clone(),
                setup,
                threads,
                phase2_writes: vec![Op::Set(0, 1)],
                phase2: false,
                bound,
                oracle: Oracle::Distinct,
                writer: vec![],
            };
            let k = if quick { 2 } else { 3 };
            // inputs created concurrently on fresh clones
            scens.push(mk("inputs-2t", &p, vec![], vec![vec![Op::NewInput(1), Op::NewInput(2)], vec![Op::NewInput(3), Op::NewInput(4)]], k));
            // a 126/128 page left behind by a dropped handle: the page-full transition and the
            // hand-over of the unfilled page happen inside the explored window
            scens.push(mk(
                "inputs-page-full-2t",
                &p,
                vec![Op::Prefill(126)],
                vec![vec![Op::NewInput(1), Op::NewInput(2), Op::NewInput(3)], vec![Op::NewInput(4), Op::Reclone, Op::NewInput(5)]],
                if quick { 1 } else { 2 },
            ));
            // handles dropped and re-cloned mid-run
            scens.push(mk("inputs-reclone-2t", &p, vec![Op::Prefill(3)], vec![vec![Op::NewInput(1), Op::Reclone, Op::NewInput(2)], vec![Op::Reclone, Op::NewInput(3), Op::NewInput(4)]], k));
            // tracked structs created by two creators on two threads (+ field read-back)
            scens.push(mk("structs-2t", &p, vec![], vec![vec![Op::Q(0), Op::QFld(0, 0, 1)], vec![Op::Q(3), Op::QFld(3, 0, 0)]], k));
            scens.push(mk("structs-same-creator-2t", &p, vec![], vec![vec![Op::Q(0)], vec![Op::Q(0), Op::Q(3)]], k));
            // interned values
            scens.push(mk("interned-2t", &pi, vec![], vec![vec![Op::QInt(1, 0), Op::QInt(1, 1)], vec![Op::QInt(1, 2), Op::QInt(1, 1)]], k));
            scens.push(mk(
                "mixed-3t",
                &p,
                vec![Op::Prefill(2)],
                vec![vec![Op::NewInput(1), Op::Q(0)], vec![Op::Q(3), Op::NewInput(2)], vec![Op::Reclone, Op::NewInput(3)]],
                if quick { 1 } else { 2 },
            ));
            // the ORIGINAL handle allocated, performed a write and keeps allocating while a clone
            // made after the write allocates too (`writer` = requests on the original handle,
            // issued by the main thread while the other threads run)
            {
                let mut sc = mk("inputs-original-handle-after-write-2t", &p, vec![Op::NewInput(9), Op::Set(0, 1)], vec![vec![Op::NewInput(1), Op::NewInput(2)]], k);
                sc.writer = vec![Op::NewInput(3), Op::NewInput(4)];
                scens.push(sc);
                let mut sc = mk("structs-original-handle-after-write-2t", &p, vec![Op::Q(3), Op::Set(1, 0)], vec![vec![Op::Q(0), Op::QFld(0, 0, 1)]], k);
                sc.writer = vec![Op::Q(3), Op::QFld(3, 0, 0)];
                scens.push(sc);
            }
            Some(E2Spec { id: "C24", scens, cap_s: cap, rule: RULE_E2, assumptions: e2_assumptions() })
        }
        "C19" => {
            // every schedule of the harnesses of the other schedule properties, with the protocol
            // monitors evaluated on the H2 trace of each
            let mut scens = Vec::new();
            for id in ["C18", "C14", "C20", "C21", "C16"] {
                if let Some(s) = e2_spec(id, tier) {
                    let mut v = s.scens;
                    if quick {
                        // the quick tier keeps the harnesses in which threads block on each other most
                        v.retain(|x| x.threads.len() >= 2 && (id != "C16" || x.name.contains("p3-1-0-1") || x.name.contains("p3-4-6-6")));
                    }
                    scens.extend(v);
                }
            }
            // call graphs of the protocol model as real programs, three threads entering at
            // different queries: nested cycles whose locks are handed over along chains
            let graphs: Vec<(&str, Vec<Vec<u8>>)> = vec![
                ("chain-handover", vec![vec![3], vec![2, 0], vec![3, 1], vec![3, 2]]),
                ("four-nested", vec![vec![1], vec![2, 0], vec![3, 1], vec![2]]),
                ("four-diamond", vec![vec![1, 2], vec![3], vec![3], vec![0]]),
                ("two-heads", vec![vec![1], vec![2, 0], vec![1, 0]]),
            ];
            for (gi, (name, calls)) in graphs.iter().enumerate() {
                if quick && gi >= 2 {
                    break;
                }
                let p = progs::model_graph(name, calls);
                scens.push(Scen {
                    name: format!("{}-3t", p.name),
                    prog: p,
                    setup: vec![],
                    threads: vec![vec![q(0)], vec![q(1)], vec![q(2)]],
                    phase2_writes: vec![],
                    phase2: false,
                    bound: if quick { 1 } else { 2 },
                    oracle: Oracle::Cycles,
                    writer: vec![],
                });
            }
            Some(E2Spec { id: "C19", scens, cap_s: cap, rule: RULE_E2, assumptions: e2_assumptions() })
        }
        "C18" => {
            let mut scens = Vec::new();
            // four nested fixpoint queries entered by three threads: locks handed over along a chain
            {
                let p = progs::model_graph("chain-handover", &[vec![3], vec![2, 0], vec![3, 1], vec![3, 2]]);
                scens.push(Scen {
                    name: format!("{}-3t", p.name),
                    prog: p,
                    setup: vec![],
                    threads: vec![vec![q(0)], vec![q(1)], vec![q(2)]],
                    phase2_writes: vec![],
                    phase2: false,
                    bound: if quick { 1 } else { 2 },
                    oracle: Oracle::Cycles,
                    writer: vec![],
                });
            }
            for kind in [Kind::Fx, Kind::Fxj, Kind::Fb] {
                let two: Vec<(ql::ex::Program, Vec<Vec<Op>>)> = vec![
                    (progs::cyc2(kind), vec![vec![q(0)], vec![q(1)]]),
                    (progs::cyc3(kind), vec![vec![q(0)], vec![q(1)]]),
                    (progs::nested3(kind), vec![vec![q(0)], vec![q(2)]]),
                    (progs::cond_cycle(kind), vec![vec![q(2)], vec![q(1)]]),
                    (progs::vdep_cycle(if kind == Kind::Fb { Kind::Fx } else { kind }), vec![vec![q(0)], vec![q(1)]]),
                ];
                for (p, th) in two {
                    scens.push(Scen {
                        name: format!("{}-2t", p.name),
                        prog: p,
                        setup: vec![],
                        threads: th,
                        phase2_writes: vec![Op::Set(1, 0), Op::Set(0, 3)],
                        phase2: true,
                        bound: if quick { 1 } else { 2 },
                        oracle: Oracle::Cycles,
                        writer: vec![],
                    });
                }
                if kind != Kind::Fxj {
                    let p = progs::nested3(kind);
                    scens.push(Scen {
                        name: format!("{}-3t", p.name),
                        prog: p,
                        setup: vec![],
                        threads: vec![vec![q(0)], vec![q(1)], vec![q(2)]],
                        phase2_writes: vec![],
                        phase2: false,
                        bound: if quick { 0 } else { 1 },
                        oracle: Oracle::Cycles,
                        writer: vec![],
                    });
                }
            }
            if quick {
                // k = 2 on the two smallest 2-thread harnesses
                for kind in [Kind::Fx, Kind::Fb] {
                    let p = progs::cyc2(kind);
                    scens.push(Scen {
                        name: format!("{}-2t-k2", p.name),
                        prog: p,
                        setup: vec![],
                        threads: vec![vec![q(0)], vec![q(1)]],
                        phase2_writes: vec![],
                        phase2: false,
                        bound: 2,
                        oracle: Oracle::Cycles,
                        writer: vec![],
                    });
                }
            }
            Some(E2Spec { id: "C18", scens, cap_s: cap, rule: RULE_E2, assumptions: e2_assumptions() })
        }
        _ => None,
    }
}

pub fn meta(id: &str, tier: &str) -> Option<Meta> {
    if let Some(s) = e1_spec(id, tier) {
        let alpha_sizes: Vec<usize> = s.programs.iter().map(|p| (s.alphabet)(p).len()).collect();
        return Some(Meta {
            engine: "E1 histx (bounded-exhaustive history enumeration on the real code)",
            config: s.config,
            rule: s.rule,
            bounds: json!({
                "programs": s.programs.len(),
                "depth": s.depth,
                "alphabet_min": alpha_sizes.iter().min(),
                "alphabet_max": alpha_sizes.iter().max(),
                "value_domain": "cells in {0,1}, external cells in {0..3}",
                "time_cap_per_worker_s": s.cap_s,
                "program_names_sample": s.programs.iter().take(5).map(|p| p.name.clone()).collect::<Vec<_>>(),
            }),
            assumptions: s.assumptions.clone(),
            extra: json!({}),
            max_workers: 64,
            pin_workers: false,
        });
    }
    #[cfg(all(feature = "memchk", not(feature = "conc")))]
    if id == "C23" {
        let b = c23_borrowed(tier);
        return Some(Meta {
            engine: "E1 histx under the monitoring allocator (quarantine, poison, red zones, epoch accounting) with revalidation of retained references",
            config: "mem",
            rule: "states = histories (each with every panic injection where stated), executions = runs of a history on the real code (two per case: the second one in its own allocation epoch for the leak check), transitions = cases, checks = operations after which the allocator monitor was polled + leak checks; non-trivial = every history (all allocate, free and retain references).",
            bounds: json!({
                "borrowed_history_sets": b.iter().map(|x| json!({"from": x.spec.id, "programs": x.spec.programs.len(), "depth": x.spec.depth, "panic_injection_at_every_callback_point": x.faults})).collect::<Vec<_>>(),
                "time_cap_per_worker_s": c23_cap(tier),
            }),
            assumptions: vec![
                "reads through dangling pointers are detected through their effect: freed memory is poisoned and quarantined for the whole history, values carry a canary pattern, retained references are re-read before every mutable borrow; an out-of-bounds or dangling read that salsa makes and whose result it discards is not observable this way".into(),
                "writes out of bounds are detected within 16 bytes after and 24 bytes before a block".into(),
                "single-threaded histories only".into(),
            ],
            extra: json!({}),
            max_workers: 64,
            pin_workers: false,
        });
    }
    #[cfg(all(feature = "hooks", not(feature = "conc")))]
    if id == "C25" {
        return Some(Meta {
            engine: "E4 edgex (exhaustive enumeration of edge sequences over the boundary classes of the encoding, through hook H1)",
            config: if cfg!(feature = "persist") { "persist" } else { "seq" },
            rule: "every sequence of edges up to the stated length over the alphabet kind{input,output} x ingredient{0,1,0xFFE,0xFFF,0x1000,0x7FFFFFFF} x index{0,1,2^31,max} x generation{0,1,0xFFFFF,0x100000,u32::MAX} (240 edges), x origin kind {derived, untracked} x 5 combinations of extra revision data; each stored through salsa's real constructors and decoded again. states = edge sequences, transitions = construct / attach-extra / clear-edges / serialize / deserialize operations checked, non-trivial = sequences containing an output edge or a value outside the compact encoding.",
            bounds: json!({"max_sequence_length": if tier == "quick" { 2 } else { 3 }, "edge_alphabet": 240, "extra_combinations": 5, "origin_kinds": 2}),
            assumptions: vec!["the hook functions only call salsa's crate-private constructors and accessors".into()],
            extra: json!({}),
            max_workers: 64,
            pin_workers: false,
        });
    }
    #[cfg(feature = "conc")]
    {
        if id == "LITMUS" {
            return Some(Meta {
                engine: "E2 ctl self-test",
                config: "conc",
                rule: "litmus bodies with known outcomes on the engine's own primitives",
                bounds: json!({}),
                assumptions: vec![],
                extra: json!({}),
                max_workers: 1,
                pin_workers: true,
            });
        }
        if let Some(s) = e2_spec(id, tier) {
            return Some(Meta {
                engine: "E2 ctl (preemption-bounded exhaustive schedule exploration of the real code on OS threads)",
                config: if cfg!(feature = "memchk") { "memconc" } else { "conc" },
                rule: s.rule,
                bounds: json!({
                    "scenarios": s.scens.iter().map(|x| json!({"name": x.name, "threads": x.threads.len(), "preemption_bound": x.bound})).collect::<Vec<_>>(),
                    "time_cap_per_scenario_per_worker_s": s.cap_s,
                }),
                assumptions: s.assumptions.clone(),
                extra: json!({}),
                max_workers: 64,
                pin_workers: true,
            });
        }
    }
    None
}

#[cfg(all(feature = "memchk", not(feature = "conc")))]
fn c23_cap(tier: &str) -> u64 {
    if tier == "quick" { 45 } else { 1200 }
}

/// History sets borrowed by C23: the quick sets of the sequential properties whose histories
/// evict, delete structs, reclaim interned values, iterate cycles, cancel and panic.
#[cfg(all(feature = "memchk", not(feature = "conc")))]
fn c23_borrowed(tier: &str) -> Vec<crate::e1mem::Borrowed> {
    let quick = tier == "quick";
    let mut v = Vec::new();
    for (id, faults) in [("C01", false), ("C05", false), ("C06", false), ("C07", false), ("C08", false), ("C10", false), ("C11", false), ("C12", false), ("C13", false), ("C15", false), ("C22", true)] {
        if let Some(mut spec) = e1_spec(id, "quick") {
            if quick {
                // every third program of the larger sets, and the depth reduced until the set has
                // at most ~25 000 histories (the whole quick tier then completes without a cap)
                if spec.programs.len() > 12 {
                    spec.programs = spec.programs.into_iter().enumerate().filter(|(i, _)| i % 3 == 0).map(|(_, p)| p).collect();
                }
                let size = |d: usize, spec: &Spec| -> f64 { spec.programs.iter().map(|p| ((spec.alphabet)(p).len() as f64).powi(d as i32)).sum() };
                while spec.depth > 2 && size(spec.depth, &spec) > 25_000.0 {
                    spec.depth -= 1;
                }
                if faults {
                    spec.depth = 2;
                }
            }
            v.push(crate::e1mem::Borrowed { spec, faults });
        }
    }
    v
}

pub fn worker(id: &str, tier: &str, w: usize, n: usize) -> WorkerOut {
    #[cfg(all(feature = "memchk", not(feature = "conc")))]
    if id == "C23" {
        return crate::e1mem::run_worker(&c23_borrowed(tier), w, n, c23_cap(tier));
    }
    if let Some(s) = e1_spec(id, tier) {
        if id == "C22" {
            return e1::run_fault_worker(&s, w, n);
        }
        return e1::run_worker(&s, w, n);
    }
    #[cfg(all(feature = "hooks", not(feature = "conc")))]
    if id == "C25" {
        return crate::e4::run_worker(tier, w, n);
    }
    #[cfg(feature = "conc")]
    {
        if id == "LITMUS" {
            return match crate::e2::litmus() {
                Ok(stats) => WorkerOut { stats, viols: vec![] },
                Err(e) => {
                    eprintln!("MACHINERY: engine self-test failed: {e}");
                    std::process::exit(2)
                }
            };
        }
        if let Some(s) = e2_spec(id, tier) {
            // (development aid: MC_ONLY_MODEL=1 runs only the model exploration of C19)
            let only_model = id == "C19" && std::env::var("MC_ONLY_MODEL").is_ok();
            let mut out = if only_model { WorkerOut::default() } else { crate::e2::run_worker(&s, w, n) };
            if id == "C19" {
                // layer 2: explicit-state exploration of the protocol model
                crate::pexplore::run_worker(tier, w, n, &mut out);
            }
            return out;
        }
    }
    eprintln!("MACHINERY: unknown property {id}");
    std::process::exit(2)
}

fn rerun_e1(id: &str, v: &Viol) -> Option<Option<(String, String, usize)>> {
    let case: Case = serde_json::from_value(v.case.get("case")?.clone()).ok()?;
    // tier does not influence the oracle flags except fresh_each; use thorough flags if the
    // violation came from the fresh-db oracle
    let tier = if v.signature.contains(":fresh-db:") { "thorough" } else { "quick" };
    let spec = e1_spec(id, tier)?;
    let mut st = Stats::default();
    let prog = Arc::new(case.program);
    let r = e1::run_history(&spec.flags, &prog, &case.history, &mut st);
    Some(r.viol)
}

fn rerun_fault(v: &Viol) -> Option<Option<(String, String, usize)>> {
    let case: Case = serde_json::from_value(v.case.get("case")?.clone()).ok()?;
    let inject = v.case.get("inject")?.as_i64()?;
    let mut st = Stats::default();
    let prog = Arc::new(case.program);
    Some(e1::run_fault_case(&prog, &case.history, inject, &mut st).0)
}

/// Run one C23 case in this process; exit status of the process = verdict (0 holds, 1 violation).
#[cfg(feature = "memchk")]
pub fn run_case_inproc(v: &Viol) -> i32 {
    match v.case.get("engine").and_then(|e| e.as_str()) {
        #[cfg(not(feature = "conc"))]
        Some("e1-mem") => match crate::e1mem::rerun(&v.case) {
            Some(Some((oracle, msg, step))) => {
                println!("CASE-VIOLATION oracle={oracle} step={step}: {msg}");
                1
            }
            Some(None) => 0,
            None => 2,
        },
        #[cfg(feature = "conc")]
        Some("e2-mem") => {
            // either one recorded schedule, or (crash attribution) a whole scenario partition
            if v.case.get("schedule").is_some() {
                match crate::e2::replay_case(&v.case, false, Some("memory-")) {
                    Some(Some(m)) => {
                        println!("CASE-VIOLATION oracle={}", m.split(' ').next().unwrap_or("memory"));
                        1
                    }
                    Some(None) => 0,
                    None => 2,
                }
            } else {
                let Some(sc) = v.case.get("scenario").and_then(|s| serde_json::from_value::<crate::e2::Scen>(s.clone()).ok()) else { return 2 };
                let part: Vec<usize> = v.case.get("part").and_then(|p| serde_json::from_value(p.clone()).ok()).unwrap_or(vec![0, 1]);
                let spec = crate::e2::E2Spec { id: "C23", scens: vec![sc], cap_s: 600, rule: "", assumptions: vec![] };
                let out = crate::e2::run_worker(&spec, part[0], part[1]);
                if out.viols.is_empty() { 0 } else {
                    println!("CASE-VIOLATION oracle={}", out.viols[0].signature);
                    1
                }
            }
        }
        _ => 2,
    }
}

/// Run one C23 case in a child process (it may crash). Some(description) = it fails.
#[cfg(feature = "memchk")]
fn run_case_child(v: &Viol) -> Option<String> {
    let dir = crate::evid::verif_root().join("target");
    let p = dir.join(format!("c23-case-{}.json", std::process::id()));
    std::fs::write(&p, serde_json::to_string(v).unwrap()).ok();
    let exe = std::env::current_exe().expect("current exe");
    let o = std::process::Command::new(exe).args(["case", "C23"]).arg(&p).output();
    let _ = std::fs::remove_file(&p);
    let o = o.ok()?;
    match o.status.code() {
        Some(0) => None,
        Some(1) => {
            let t = String::from_utf8_lossy(&o.stdout);
            // the oracle name only: addresses in the message differ between runs
            Some(t.lines().find(|l| l.starts_with("CASE-VIOLATION")).map(|l| l.split(':').next().unwrap_or(l).to_string()).unwrap_or_else(|| "violation".into()))
        }
        Some(c) => Some(format!("the process running the case exited with status {c}")),
        None => Some(format!("the process running the case died: {:?}", o.status)),
    }
}

pub fn confirm(id: &str, v: &Viol) -> Confirm {
    match v.case.get("engine").and_then(|e| e.as_str()) {
        #[cfg(all(feature = "hooks", not(feature = "conc")))]
        Some("e4") => match (crate::e4::replay(&v.case), crate::e4::replay(&v.case)) {
            (Some(Some(_)), Some(Some(_))) => Confirm::Reproduced,
            _ => Confirm::NotReproduced,
        },
        #[cfg(feature = "memchk")]
        Some("e1-mem") | Some("e2-mem") => match (run_case_child(v), run_case_child(v)) {
            (Some(a), Some(b)) if a == b => Confirm::Reproduced,
            _ => Confirm::NotReproduced,
        },
        Some("e1-fault") => match (rerun_fault(v), rerun_fault(v)) {
            (Some(Some(x)), Some(Some(y))) if x.0 == y.0 => Confirm::Reproduced,
            _ => Confirm::NotReproduced,
        },
        Some("e1") => {
            // replay twice: the same case must fail both times with the same oracle
            let a = rerun_e1(id, v);
            let b = rerun_e1(id, v);
            match (a, b) {
                (Some(Some(x)), Some(Some(y))) if x.0 == y.0 => Confirm::Reproduced,
                _ => Confirm::NotReproduced,
            }
        }
        #[cfg(feature = "conc")]
        Some("pmodel") => match (crate::pexplore::replay(&v.case), crate::pexplore::replay(&v.case)) {
            (Some(Some(a)), Some(Some(b))) if a == b => Confirm::Reproduced,
            _ => Confirm::NotReproduced,
        },
        #[cfg(feature = "conc")]
        Some("e2") => {
            let a = crate::e2::replay_case(&v.case, id == "C19", if id == "C23" { Some("memory-") } else { None });
            let b = crate::e2::replay_case(&v.case, id == "C19", if id == "C23" { Some("memory-") } else { None });
            match (a, b) {
                (Some(Some(_)), Some(Some(_))) => Confirm::Reproduced,
                _ => Confirm::NotReproduced,
            }
        }
        _ => Confirm::Reproduced,
    }
}

pub fn replay(id: &str, path: &str) -> i32 {
    let v = crate::evid::read_replay(std::path::Path::new(path));
    match v.case.get("engine").and_then(|e| e.as_str()) {
        #[cfg(all(feature = "hooks", not(feature = "conc")))]
        Some("e4") => match crate::e4::replay(&v.case) {
            Some(Some(msg)) => {
                println!("VIOLATION property={id} replay={path}");
                println!("  {msg}");
                1
            }
            Some(None) => {
                println!("replay of {path}: property {id} holds on this case");
                0
            }
            None => 2,
        },
        #[cfg(feature = "memchk")]
        Some("e1-mem") | Some("e2-mem") => match run_case_child(&v) {
            Some(msg) => {
                println!("VIOLATION property={id} replay={path}");
                println!("  {msg}");
                1
            }
            None => {
                println!("replay of {path}: property {id} holds on this case");
                0
            }
        },
        Some("e1-fault") => match rerun_fault(&v) {
            Some(Some((oracle, msg, step))) => {
                println!("VIOLATION property={id} replay={path}");
                println!("  oracle={oracle} step={step}: {msg}");
                1
            }
            Some(None) => {
                println!("replay of {path}: property {id} holds on this case");
                0
            }
            None => {
                eprintln!("MACHINERY: cannot interpret replay file {path}");
                2
            }
        },
        Some("e1") => match rerun_e1(id, &v) {
            Some(Some((oracle, msg, step))) => {
                println!("VIOLATION property={id} replay={path}");
                println!("  oracle={oracle} step={step}: {msg}");
                1
            }
            Some(None) => {
                println!("replay of {path}: property {id} holds on this case");
                0
            }
            None => {
                eprintln!("MACHINERY: cannot interpret replay file {path}");
                2
            }
        },
        #[cfg(feature = "conc")]
        Some("pmodel") => match crate::pexplore::replay(&v.case) {
            Some(Some(msg)) => {
                println!("VIOLATION property={id} replay={path}");
                println!("  {msg}");
                1
            }
            Some(None) => {
                println!("replay of {path}: property {id} holds on this model system");
                0
            }
            None => 2,
        },
        #[cfg(feature = "conc")]
        Some("e2") => match crate::e2::replay_case(&v.case, id == "C19", if id == "C23" { Some("memory-") } else { None }) {
            Some(Some(msg)) => {
                println!("VIOLATION property={id} replay={path}");
                println!("  {msg}");
                1
            }
            Some(None) => {
                println!("replay of {path}: property {id} holds on this schedule");
                0
            }
            None => {
                eprintln!("MACHINERY: schedule in {path} could not be replayed deterministically");
                2
            }
        },
        _ => {
            eprintln!("MACHINERY: replay for this engine is not available in this build configuration");
            2
        }
    }
}
