//! Property registry: which engine / programs / alphabet / oracle decides which property.

use std::sync::Arc;

use serde_json::{Value, json};

use crate::e1::{self, Case, Spec, WorkerOut};
use crate::evid::{Stats, Viol};
use crate::mon::Flags;
use crate::progs;

pub struct Meta {
    pub engine: &'static str,
    pub config: &'static str,
    pub rule: &'static str,
    pub bounds: Value,
    pub assumptions: Vec<String>,
    pub extra: Value,
    pub max_workers: usize,
}

pub enum Confirm {
    Reproduced,
    NotReproduced,
}

const RULE_E1: &str = "every history of the stated depth over the property's operation alphabet, for every listed program, each run on a fresh real salsa database; every oracle evaluated after every operation. states = distinct history prefixes, transitions = prefix extensions, traces_validated = complete histories executed on the real code and compared step by step with the reference interpreter. A history is non-trivial when salsa both validated a memo without executing it and re-executed some function in it.";

fn base_assumptions() -> Vec<String> {
    vec![
        "bounded: programs, value domains and history depth as listed in coverage.bounds".into(),
        "the reference interpreter (ql/src/refm.rs) defines the expected from-scratch results".into(),
        "harness functions are deterministic; op arithmetic is shared between salsa bodies and reference".into(),
    ]
}

#[cfg(not(feature = "conc"))]
pub fn e1_spec(id: &str, tier: &str) -> Option<Spec> {
    let quick = tier == "quick";
    let cap = if quick { 50 } else { 1500 };
    match id {
        "C01" => Some(Spec {
            id: "C01",
            programs: if quick {
                progs::quick_p3()
            } else {
                let mut v = progs::all_p3();
                v.extend(progs::p4_set());
                v
            },
            depth: if quick { 4 } else { 5 },
            alphabet: Box::new(progs::base_alphabet),
            flags: Flags { values: true, fresh_end: true, fresh_each: !quick, ..Flags::default() },
            rule: RULE_E1,
            cap_s: cap,
            config: "seq",
            assumptions: base_assumptions(),
        }),
        "C02" => Some(Spec {
            id: "C02",
            programs: {
                use ql::ex::Dur::*;
                let base = if quick {
                    vec![progs::p3(1, 0, 1), progs::p3(5, 3, 2), progs::p3(5, 4, 3), progs::p3(1, 5, 0), progs::p3(4, 6, 6), progs::p3(3, 7, 1)]
                } else {
                    progs::quick_p3()
                };
                let mut v = Vec::new();
                for p in base {
                    for (d0, d1, dc) in [(Low, High, High), (High, Low, Medium), (Medium, High, Never), (High, High, High)] {
                        v.push(progs::with_durs(p.clone(), d0, d1, dc));
                    }
                }
                v
            },
            depth: 4,
            alphabet: Box::new(progs::dur_alphabet),
            flags: Flags { values: true, fresh_end: true, needs_pre_world: true, ..Flags::default() },
            rule: RULE_E1,
            cap_s: cap,
            config: "seq",
            assumptions: base_assumptions(),
        }),
        "C03" => Some(Spec {
            id: "C03",
            programs: if quick {
                progs::quick_p3()
            } else {
                let mut v = progs::all_p3();
                v.extend(progs::p4_set());
                v
            },
            depth: if quick { 4 } else { 5 },
            alphabet: Box::new(progs::base_alphabet),
            flags: Flags { values: true, justify: true, ..Flags::default() },
            rule: RULE_E1,
            cap_s: cap,
            config: "seq",
            assumptions: {
                let mut a = base_assumptions();
                a.push("the justification monitor is an only-if oracle: anything it cannot classify counts as justified".into());
                a
            },
        }),
        "C04" => Some(Spec {
            id: "C04",
            programs: progs::untracked_set(),
            depth: if quick { 4 } else { 6 },
            alphabet: Box::new(progs::untracked_alphabet),
            flags: Flags { values: true, must_exec: true, justify: true, ..Flags::default() },
            rule: RULE_E1,
            cap_s: cap,
            config: "seq",
            assumptions: base_assumptions(),
        }),
        _ => None,
    }
}

#[cfg(feature = "conc")]
pub fn e1_spec(_id: &str, _tier: &str) -> Option<Spec> {
    None
}

pub fn meta(id: &str, tier: &str) -> Option<Meta> {
    if let Some(s) = e1_spec(id, tier) {
        let alpha_sizes: Vec<usize> = s.programs.iter().map(|p| (s.alphabet)(p).len()).collect();
        return Some(Meta {
            engine: "E1 histx (bounded-exhaustive history enumeration on the real code)",
            config: s.config,
            rule: s.rule,
            bounds: json!({
                "programs": s.programs.len(),
                "depth": s.depth,
                "alphabet_min": alpha_sizes.iter().min(),
                "alphabet_max": alpha_sizes.iter().max(),
                "value_domain": "cells in {0,1}, external cells in {0..3}",
                "time_cap_per_worker_s": s.cap_s,
                "program_names_sample": s.programs.iter().take(5).map(|p| p.name.clone()).collect::<Vec<_>>(),
            }),
            assumptions: s.assumptions.clone(),
            extra: json!({}),
            max_workers: 64,
        });
    }
    None
}

pub fn worker(id: &str, tier: &str, w: usize, n: usize) -> WorkerOut {
    if let Some(s) = e1_spec(id, tier) {
        return e1::run_worker(&s, w, n);
    }
    eprintln!("MACHINERY: unknown property {id}");
    std::process::exit(2)
}

fn rerun_e1(id: &str, v: &Viol) -> Option<Option<(String, String, usize)>> {
    let case: Case = serde_json::from_value(v.case.get("case")?.clone()).ok()?;
    // tier does not influence the oracle flags except fresh_each; use thorough flags if the
    // violation came from the fresh-db oracle
    let tier = if v.signature.contains(":fresh-db:") { "thorough" } else { "quick" };
    let spec = e1_spec(id, tier)?;
    let mut st = Stats::default();
    let prog = Arc::new(case.program);
    let r = e1::run_history(&spec.flags, &prog, &case.history, &mut st);
    Some(r.viol)
}

pub fn confirm(id: &str, v: &Viol) -> Confirm {
    match v.case.get("engine").and_then(|e| e.as_str()) {
        Some("e1") => {
            // replay twice: the same case must fail both times with the same oracle
            let a = rerun_e1(id, v);
            let b = rerun_e1(id, v);
            match (a, b) {
                (Some(Some(x)), Some(Some(y))) if x.0 == y.0 => Confirm::Reproduced,
                _ => Confirm::NotReproduced,
            }
        }
        _ => Confirm::Reproduced,
    }
}

pub fn replay(id: &str, path: &str) -> i32 {
    let v = crate::evid::read_replay(std::path::Path::new(path));
    match v.case.get("engine").and_then(|e| e.as_str()) {
        Some("e1") => match rerun_e1(id, &v) {
            Some(Some((oracle, msg, step))) => {
                println!("VIOLATION property={id} replay={path}");
                println!("  oracle={oracle} step={step}: {msg}");
                1
            }
            Some(None) => {
                println!("replay of {path}: property {id} holds on this case");
                0
            }
            None => {
                eprintln!("MACHINERY: cannot interpret replay file {path}");
                2
            }
        },
        _ => {
            eprintln!("MACHINERY: replay for this engine is not available in this build configuration");
            2
        }
    }
}
