//! C23: a quarantining, poisoning, accounting global allocator (build configuration `mem`).
//!
//! Every allocation of the process goes through it:
//! * a header and red zones surround the payload; they are checked when the block is freed
//!   (buffer under-/overflow writes, frees of pointers that are not live blocks, double frees);
//! * fresh payloads are filled with 0xCD, freed payloads with 0xDD; freed blocks are kept in a
//!   quarantine (never reused while a history runs), so a read through a dangling pointer sees
//!   the poison deterministically and a write through one is detected when the quarantine is
//!   drained (the poison must be intact);
//! * live blocks are linked into a list and carry the epoch in which they were allocated, so the
//!   harness can ask which blocks allocated during one history are still live after the
//!   database was dropped.
//!
//! Nothing here allocates or panics; errors are latched and polled by the harness.

use std::alloc::{GlobalAlloc, Layout, System};
use std::sync::atomic::{AtomicBool, AtomicU32, AtomicU64, AtomicUsize, Ordering::*};

const MAGIC_LIVE: u64 = 0x4C49_5645_A110_C8ED;
const MAGIC_FREE: u64 = 0xF4EE_D000_DEAD_B10C;
const FRONT: usize = 64;
const BACK: usize = 16;
const RZ_FRONT: u8 = 0xFA;
const RZ_BACK: u8 = 0xFB;
const FILL_NEW: u8 = 0xCD;
pub const FILL_FREED: u8 = 0xDD;

#[repr(C)]
struct Header {
    magic: u64,
    size: usize,
    align: u32,
    epoch: u32,
    prev: *mut Header,
    next: *mut Header,
}

pub struct Quarantine;

static LOCK: AtomicBool = AtomicBool::new(false);
static mut HEAD: *mut Header = std::ptr::null_mut();
static EPOCH: AtomicU32 = AtomicU32::new(0);
static LIVE_BLOCKS: AtomicU64 = AtomicU64::new(0);
static LIVE_BYTES: AtomicU64 = AtomicU64::new(0);
static ALLOCS: AtomicU64 = AtomicU64::new(0);
static FREES: AtomicU64 = AtomicU64::new(0);
static Q_BYTES: AtomicUsize = AtomicUsize::new(0);
static Q_PEAK: AtomicUsize = AtomicUsize::new(0);

// quarantine: singly linked through the `next` field of freed headers
static mut Q_HEAD: *mut Header = std::ptr::null_mut();
static mut Q_TAIL: *mut Header = std::ptr::null_mut();
/// above this many quarantined bytes the oldest blocks are really freed (after checking poison)
const Q_LIMIT: usize = 256 << 20;

static ERR_SET: AtomicBool = AtomicBool::new(false);
static mut ERR_KIND: u8 = 0;
static mut ERR_SIZE: usize = 0;
static ERRORS: AtomicU64 = AtomicU64::new(0);

fn lock() {
    while LOCK.compare_exchange_weak(false, true, Acquire, Relaxed).is_err() {
        std::hint::spin_loop();
    }
}
fn unlock() {
    LOCK.store(false, Release);
}

#[derive(Clone, Copy, Debug, PartialEq, Eq)]
pub enum MemError {
    InvalidFree,
    DoubleFree,
    FrontRedzone,
    BackRedzone,
    WriteAfterFree,
    SizeMismatch,
}

fn latch(kind: MemError, size: usize) {
    ERRORS.fetch_add(1, SeqCst);
    if !ERR_SET.swap(true, SeqCst) {
        // SAFETY: written once while ERR_SET flips to true; read after observing ERR_SET
        unsafe {
            ERR_KIND = kind as u8;
            ERR_SIZE = size;
        }
    }
}

/// First error since the last call, if any.
pub fn take_error() -> Option<String> {
    if !ERR_SET.load(SeqCst) {
        return None;
    }
    // SAFETY: see `latch`
    let (k, s) = unsafe { (ERR_KIND, ERR_SIZE) };
    ERR_SET.store(false, SeqCst);
    let kind = match k {
        0 => "free of a pointer that is not a live block",
        1 => "double free",
        2 => "write before the start of a block (front red zone / header damaged)",
        3 => "write past the end of a block (back red zone damaged)",
        4 => "write to a freed block (poison damaged while in quarantine)",
        _ => "block freed with a different layout than it was allocated with",
    };
    Some(format!("{kind} (block of {s} bytes)"))
}

unsafe fn front_pad(align: usize) -> usize {
    FRONT.max(align)
}

unsafe impl GlobalAlloc for Quarantine {
    unsafe fn alloc(&self, layout: Layout) -> *mut u8 {
        let align = layout.align().max(16);
        let pad = front_pad(align);
        let total = pad + layout.size() + BACK;
        let Ok(l) = Layout::from_size_align(total, align) else { return std::ptr::null_mut() };
        let base = System.alloc(l);
        if base.is_null() {
            return base;
        }
        let payload = base.add(pad);
        let h = payload.sub(FRONT) as *mut Header;
        std::ptr::write_bytes(payload.sub(FRONT), RZ_FRONT, FRONT);
        std::ptr::write_bytes(payload, FILL_NEW, layout.size());
        std::ptr::write_bytes(payload.add(layout.size()), RZ_BACK, BACK);
        lock();
        (*h).magic = MAGIC_LIVE;
        (*h).size = layout.size();
        (*h).align = layout.align() as u32;
        (*h).epoch = EPOCH.load(Relaxed);
        (*h).prev = std::ptr::null_mut();
        (*h).next = HEAD;
        if !HEAD.is_null() {
            (*HEAD).prev = h;
        }
        HEAD = h;
        unlock();
        LIVE_BLOCKS.fetch_add(1, Relaxed);
        LIVE_BYTES.fetch_add(layout.size() as u64, Relaxed);
        ALLOCS.fetch_add(1, Relaxed);
        payload
    }

    unsafe fn alloc_zeroed(&self, layout: Layout) -> *mut u8 {
        let p = self.alloc(layout);
        if !p.is_null() {
            std::ptr::write_bytes(p, 0, layout.size());
        }
        p
    }

    unsafe fn dealloc(&self, ptr: *mut u8, layout: Layout) {
        let h = ptr.sub(FRONT) as *mut Header;
        lock();
        let magic = (*h).magic;
        if magic == MAGIC_FREE {
            unlock();
            latch(MemError::DoubleFree, layout.size());
            return;
        }
        if magic != MAGIC_LIVE {
            unlock();
            // either not ours or the header was overwritten
            latch(MemError::InvalidFree, layout.size());
            return;
        }
        let size = (*h).size;
        // unlink
        let (prev, next) = ((*h).prev, (*h).next);
        if prev.is_null() {
            HEAD = next;
        } else {
            (*prev).next = next;
        }
        if !next.is_null() {
            (*next).prev = prev;
        }
        (*h).magic = MAGIC_FREE;
        unlock();
        if size != layout.size() || (*h).align as usize != layout.align() {
            latch(MemError::SizeMismatch, layout.size());
        }
        // red zones: the bytes between the header and the payload, and after the payload
        let rz = (h as *mut u8).add(std::mem::size_of::<Header>());
        let rz_len = FRONT - std::mem::size_of::<Header>();
        for i in 0..rz_len {
            if *rz.add(i) != RZ_FRONT {
                latch(MemError::FrontRedzone, size);
                break;
            }
        }
        for i in 0..BACK {
            if *ptr.add(size + i) != RZ_BACK {
                latch(MemError::BackRedzone, size);
                break;
            }
        }
        std::ptr::write_bytes(ptr, FILL_FREED, size);
        LIVE_BLOCKS.fetch_sub(1, Relaxed);
        LIVE_BYTES.fetch_sub(size as u64, Relaxed);
        FREES.fetch_add(1, Relaxed);
        // quarantine
        lock();
        (*h).next = std::ptr::null_mut();
        if Q_TAIL.is_null() {
            Q_HEAD = h;
        } else {
            (*Q_TAIL).next = h;
        }
        Q_TAIL = h;
        unlock();
        let q = Q_BYTES.fetch_add(size + FRONT + BACK, Relaxed) + size + FRONT + BACK;
        Q_PEAK.fetch_max(q, Relaxed);
        if q > Q_LIMIT {
            drain(Q_LIMIT / 2);
        }
    }
}

/// Really free quarantined blocks (oldest first) until at most `keep` bytes remain; each block's
/// poison must be intact.
pub fn drain(keep: usize) {
    unsafe {
        loop {
            if Q_BYTES.load(Relaxed) <= keep {
                return;
            }
            lock();
            let h = Q_HEAD;
            if h.is_null() {
                unlock();
                return;
            }
            Q_HEAD = (*h).next;
            if Q_HEAD.is_null() {
                Q_TAIL = std::ptr::null_mut();
            }
            unlock();
            let size = (*h).size;
            let align = ((*h).align as usize).max(16);
            let payload = (h as *mut u8).add(FRONT);
            let mut ok = (*h).magic == MAGIC_FREE;
            if ok {
                // word-wise scan
                let mut i = 0;
                while i < size {
                    if *payload.add(i) != FILL_FREED {
                        ok = false;
                        break;
                    }
                    i += 1;
                }
            }
            if !ok {
                latch(MemError::WriteAfterFree, size);
            }
            Q_BYTES.fetch_sub(size + FRONT + BACK, Relaxed);
            let pad = front_pad(align);
            let base = payload.sub(pad);
            let total = pad + size + BACK;
            System.dealloc(base, Layout::from_size_align_unchecked(total, align));
        }
    }
}

/// Start a new epoch; returns its number.
pub fn new_epoch() -> u32 {
    EPOCH.fetch_add(1, SeqCst) + 1
}

/// Live blocks allocated in `epoch`: (count, bytes, up to 4 sizes).
pub fn live_in_epoch(epoch: u32) -> (u64, u64, [usize; 4]) {
    let mut n = 0;
    let mut bytes = 0;
    let mut sizes = [0usize; 4];
    lock();
    // SAFETY: list only mutated under the lock
    unsafe {
        let mut h = HEAD;
        while !h.is_null() {
            if (*h).epoch == epoch {
                if (n as usize) < 4 {
                    sizes[n as usize] = (*h).size;
                }
                n += 1;
                bytes += (*h).size as u64;
            }
            h = (*h).next;
        }
    }
    unlock();
    (n, bytes, sizes)
}

pub struct Counters {
    pub allocs: u64,
    pub frees: u64,
    pub live_blocks: u64,
    pub live_bytes: u64,
    pub quarantine_peak: usize,
    pub errors: u64,
}

pub fn counters() -> Counters {
    Counters {
        allocs: ALLOCS.load(Relaxed),
        frees: FREES.load(Relaxed),
        live_blocks: LIVE_BLOCKS.load(Relaxed),
        live_bytes: LIVE_BYTES.load(Relaxed),
        quarantine_peak: Q_PEAK.load(Relaxed),
        errors: ERRORS.load(Relaxed),
    }
}

/// Self-test of the monitor (run by `./check setup` and at the start of every C23 run): each
/// kind of error must be detected on a deliberately wrong program.
pub fn self_test() -> Result<(), String> {
    let _ = take_error();
    unsafe {
        // overflow write
        let l = Layout::from_size_align(24, 8).unwrap();
        let p = Quarantine.alloc(l);
        *p.add(24) = 1;
        Quarantine.dealloc(p, l);
        match take_error() {
            Some(e) if e.contains("past the end") => {}
            other => return Err(format!("overflow write not detected: {other:?}")),
        }
        // underflow write
        let p = Quarantine.alloc(l);
        *p.sub(1) = 1;
        Quarantine.dealloc(p, l);
        match take_error() {
            Some(e) if e.contains("before the start") => {}
            other => return Err(format!("underflow write not detected: {other:?}")),
        }
        // double free
        let p = Quarantine.alloc(l);
        Quarantine.dealloc(p, l);
        Quarantine.dealloc(p, l);
        match take_error() {
            Some(e) if e.contains("double free") => {}
            other => return Err(format!("double free not detected: {other:?}")),
        }
        // read after free sees poison
        let p = Quarantine.alloc(l);
        *p = 7;
        Quarantine.dealloc(p, l);
        if *p != FILL_FREED {
            return Err("freed block is not poisoned".into());
        }
        // write after free is detected when the quarantine is drained
        *p = 9;
        drain(0);
        match take_error() {
            Some(e) if e.contains("freed block") => {}
            other => return Err(format!("write after free not detected: {other:?}")),
        }
        // leak accounting
        let e = new_epoch();
        let p = Quarantine.alloc(l);
        let (n, b, _) = live_in_epoch(e);
        if (n, b) != (1, 24) {
            return Err(format!("epoch accounting: {n} blocks, {b} bytes"));
        }
        Quarantine.dealloc(p, l);
        if live_in_epoch(e).0 != 0 {
            return Err("epoch accounting after free".into());
        }
    }
    drain(0);
    let _ = take_error();
    Ok(())
}
