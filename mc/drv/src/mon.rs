//! Monitors: oracles evaluated on the observation log of every operation of every history.

use std::collections::{BTreeMap, BTreeSet, HashMap};
use std::sync::Arc;

use ql::ex::*;
use ql::items::{EvK, F, Key, Out, Rec, Sess};
use ql::refm::{Expect, World};

use crate::evid::Stats;

#[derive(Clone, Debug, Default)]
pub struct Flags {
    /// compare every operation's outcome with the reference interpreter
    pub values: bool,
    pub fresh_each: bool,
    pub fresh_end: bool,
    pub needs_pre_world: bool,
    /// C03: every re-execution must be justified
    pub justify: bool,
    /// C04: untracked readers re-execute in every revision in which they are asked
    pub must_exec: bool,
    /// C05: LRU bound / recency / transparency
    pub lru: bool,
    /// C06: tracked-struct identity map
    pub ident: bool,
    /// C07: reclaimed identities never alias
    pub alias: bool,
    /// C08 (sequential part) / C09: interned identity & reclamation rule
    pub intern: bool,
    /// C10: specify executes the body only when the reference computes
    pub specify: bool,
    /// C15: iteration count bound
    pub iter_bound: bool,
    /// C14: a re-entered function without cycle handling must panic
    pub cycle_panic: bool,
    /// C11: nothing beyond the value oracle
    pub acc: bool,
    /// C05: differential against a twin database in which the lru function caches without bound
    pub lru_twin: bool,
    /// C26: results that were valid when the database was serialized are not re-executed
    pub persist: bool,
}

type K = (F, u64);

#[derive(Clone, Debug)]
enum Read {
    Cell(u8),
    Code(u8),
    Call(K),
    Fld(u64, u8),
    Int(u64),
}

#[derive(Clone, Debug, Default)]
struct KRec {
    last_valid_op: usize,
    reads: Vec<Read>,
    val: u64,
    untracked: bool,
    /// (op index, value changed or the result became less durable w.r.t. previous execution)
    execs: Vec<(usize, bool)>,
    last_exec_rev: u64,
    last_valid_rev: u64,
    /// durability of the result: minimum over everything the execution read (0 = LOW .. 3)
    dur: u8,
}

struct Frame {
    k: K,
    reads: Vec<Read>,
    untracked: bool,
    dur: u8,
}

fn dur_rank(d: Dur) -> u8 {
    match d {
        Dur::Low => 0,
        Dur::Medium => 1,
        Dur::High => 2,
        Dur::Never => 3,
    }
}

#[derive(Clone, Debug)]
enum Write {
    Cell(u8),
    Code(u8),
    DurChange,
}

pub struct Monitor {
    pub flags: Flags,
    pub prog: Arc<Program>,
    s2m: HashMap<Key, K>,
    recs: HashMap<K, KRec>,
    writes: Vec<(usize, Write)>,
    /// (struct id, field) -> [(op, changed)]
    fld_hist: HashMap<(u64, u8), Vec<(usize, bool)>>,
    /// struct id -> (ident, f, g) as last created
    structs: HashMap<u64, (u8, u8, u8)>,
    /// op indices at which an interned slot (low 32 bits of id) was reused
    intern_reuse: Vec<(usize, u32)>,
    pub reused: u64,
    pub reexec: u64,
    /// keys whose last execution was nested inside the fixpoint/fallback iteration of another key
    participant: std::collections::HashSet<K>,
    taint_fbp: bool,
    taint_stale: bool,
    restored: std::collections::HashSet<K>,
    had_round_trip: bool,
    rt_rev: u64,
    seen_ids: std::collections::HashSet<u64>,
    dead_ids: std::collections::HashSet<u64>,
    /// Fb keys whose last completed execution hit a cycle inside its activation
    last_exec_cyclic: std::collections::HashSet<K>,
    pending_cyc: Vec<(K, bool)>,
    rev: u64,
    last_rev_dbg: String,
    /// the capacity of the creator function was changed: creators may re-execute after eviction
    mk_lru_used: bool,
    pub sub: crate::mon2::Sub,
}

fn slot_of(id: u64) -> u32 {
    (id & 0xFFFF_FFFF) as u32
}

impl Monitor {
    pub fn new(flags: Flags, prog: Arc<Program>) -> Monitor {
        Monitor {
            sub: crate::mon2::Sub::new(&flags, &prog),
            flags,
            prog,
            s2m: HashMap::new(),
            recs: HashMap::new(),
            writes: Vec::new(),
            fld_hist: HashMap::new(),
            structs: HashMap::new(),
            intern_reuse: Vec::new(),
            reused: 0,
            reexec: 0,
            participant: Default::default(),
            taint_fbp: false,
            taint_stale: false,
            restored: Default::default(),
            had_round_trip: false,
            rt_rev: 0,
            seen_ids: Default::default(),
            dead_ids: Default::default(),
            last_exec_cyclic: Default::default(),
            pending_cyc: Vec::new(),
            rev: 0,
            last_rev_dbg: String::new(),
            mk_lru_used: false,
        }
    }

    /// Learn the ids of the node inputs of this session.
    pub fn bind(&mut self, sess: &Sess) {
        use salsa::plumbing::AsId;
        self.sub.node_keys = sess.db.cx_arc().tabs().nodes.iter().map(|c| c.as_id().as_bits()).collect();
    }

    fn dur_change_since(&self, since: usize) -> bool {
        self.writes.iter().any(|(op, w)| *op > since && matches!(w, Write::DurChange))
    }

    fn justified(&self, k: K, _now: usize) -> Result<(), String> {
        let Some(r) = self.recs.get(&k) else { return Ok(()) };
        if r.untracked || k.0.has_cycle_handling() {
            return Ok(());
        }
        if k.0 == F::Lru && !(self.flags.lru && self.sub.lru.believed_cached(k.1) == Some(true)) {
            // the value may have been evicted
            return Ok(());
        }
        if k.0 == F::Mk && self.mk_lru_used {
            // the creator's capacity was lowered: its value may have been evicted
            return Ok(());
        }
        let since = r.last_valid_op;
        if self.dur_change_since(since) {
            return Ok(());
        }
        for rd in &r.reads {
            match rd {
                Read::Cell(c) => {
                    if self.writes.iter().any(|(op, w)| *op > since && matches!(w, Write::Cell(x) if x == c)) {
                        return Ok(());
                    }
                }
                Read::Code(n) => {
                    if self.writes.iter().any(|(op, w)| *op > since && matches!(w, Write::Code(x) if x == n)) {
                        return Ok(());
                    }
                }
                Read::Call(k2) => {
                    let Some(r2) = self.recs.get(k2) else { return Ok(()) };
                    if k2.0 == F::Lru && !(self.flags.lru && self.sub.lru.believed_cached(k2.1) == Some(true)) {
                        // the callee's value may have been evicted: salsa has nothing to compare
                        // a recomputed value with, so the caller is re-executed first
                        return Ok(());
                    }
                    if k2.0 == F::Mk && self.mk_lru_used {
                        return Ok(());
                    }
                    let loose = matches!(k2.0, F::NoEq | F::Lru) || k2.0.has_cycle_handling();
                    if r2.execs.iter().any(|(op, changed)| *op > since && (*changed || loose)) {
                        return Ok(());
                    }
                }
                Read::Fld(id, w) => {
                    match self.fld_hist.get(&(*id, *w)) {
                        None => return Ok(()),
                        Some(h) => {
                            // identity field: depends on the entity as a whole
                            if h.iter().any(|(op, changed)| *op > since && (*changed || *w == 0)) {
                                return Ok(());
                            }
                        }
                    }
                }
                Read::Int(id) => {
                    let slot = slot_of(*id);
                    if self.intern_reuse.iter().any(|(op, s)| *op > since && *s == slot) {
                        return Ok(());
                    }
                }
            }
        }
        Err(format!(
            "re-execution of {:?} is not justified: last validated at step {}, reads {:?}, writes since {:?}",
            k,
            since,
            r.reads,
            self.writes.iter().filter(|(op, _)| *op > since).collect::<Vec<_>>()
        ))
    }

    #[allow(clippy::too_many_arguments)]
    pub fn after_op(
        &mut self,
        i: usize,
        op: &Op,
        exp: &Expect,
        out: &Out,
        log: &[Rec],
        sess: &mut Sess,
        world: &World,
        pre_world: Option<&World>,
        stats: &mut Stats,
    ) -> Result<(), (String, String)> {
        for (k, hit) in std::mem::take(&mut self.pending_cyc) {
            if hit {
                self.last_exec_cyclic.insert(k);
            } else {
                self.last_exec_cyclic.remove(&k);
            }
        }
        if self.flags.persist {
            match op {
                Op::RoundTrip => {
                    self.restored = self
                        .recs
                        .iter()
                        .filter(|(k, r)| r.last_valid_rev == self.rev && !r.untracked && !matches!(k.0, F::Lru | F::Sp))
                        .map(|(k, _)| *k)
                        .collect();
                    stats.bump("round_trips", 1);
                    stats.bump("memos_valid_at_round_trip", self.restored.len() as u64);
                }
                Op::Set(..) | Op::SetD(..) | Op::Syn(_) | Op::SetExtSyn(..) | Op::Swap(_) => self.restored.clear(),
                _ => {}
            }
        }
        // record writes
        match op {
            Op::Set(c, _) => self.writes.push((i, Write::Cell(*c))),
            Op::SetD(c, _, d) => {
                self.writes.push((i, Write::Cell(*c)));
                // only a write that LOWERS the durability makes salsa re-stamp things whose value
                // did not change (results cannot be backdated, struct fields are re-stamped); after
                // a raise everything that compares equal must be reused. Without the previous
                // durability any change counts.
                let before = pre_world.map(|w| w.cell_dur[*c as usize]);
                let lowered = match before {
                    Some(b) => *d < b,
                    None => true,
                };
                if lowered {
                    self.writes.push((i, Write::DurChange));
                }
            }
            Op::Swap(n) => self.writes.push((i, Write::Code(*n))),
            _ => {}
        }
        let mut stack: Vec<Frame> = Vec::new();
        let mut pending_exec: Option<Key> = None;
        let mut reentered: Option<K> = None;
        for r in log {
            self.note_struct_rec(i, r);
            match r {
                Rec::Ev { k: EvK::WillExecute, key, .. } => pending_exec = *key,
                Rec::Enter { f, key, .. } => {
                    let k = (*f, *key);
                    if let Some(sk) = pending_exec.take() {
                        self.s2m.insert(sk, k);
                    }
                    if self.recs.contains_key(&k) {
                        self.reexec += 1;
                        stats.bump("reexecutions", 1);
                    } else {
                        stats.bump("first_executions", 1);
                    }
                    if self.flags.justify {
                        self.justified(k, i).map_err(|m| ("unjustified-execution".to_string(), m))?;
                    }
                    if self.flags.persist && self.restored.contains(&k) {
                        return Err((
                            "restored-memo-reexecuted".into(),
                            format!("{k:?} was valid when the database was serialized and its inputs are unchanged, but it was re-executed after the round trip"),
                        ));
                    }
                    if k.0.has_cycle_handling() {
                        if stack.iter().any(|fr| fr.k.0.has_cycle_handling() && fr.k != k) {
                            self.participant.insert(k);
                        } else {
                            self.participant.remove(&k);
                        }
                    }
                    stack.push(Frame { k, reads: Vec::new(), untracked: false, dur: 3 });
                }
                Rec::ReadCell { c, .. } => {
                    if let Some(f) = stack.last_mut() {
                        f.reads.push(Read::Cell(*c));
                        f.dur = f.dur.min(dur_rank(world.cell_dur[*c as usize]));
                    }
                }
                Rec::ReadCode { n, .. } => {
                    if let Some(f) = stack.last_mut() {
                        f.reads.push(Read::Code(*n));
                        f.dur = f.dur.min(dur_rank(world.code_dur[*n as usize]));
                    }
                }
                Rec::ReadExt { .. } => {
                    if let Some(f) = stack.last_mut() {
                        f.untracked = true;
                        f.dur = 0;
                    }
                }
                Rec::CallBegin { f, key, .. } => {
                    if self.flags.cycle_panic && !f.has_cycle_handling() && stack.iter().any(|fr| fr.k == (*f, *key)) {
                        reentered = Some((*f, *key));
                        stats.bump("non_recovering_function_reentered", 1);
                    }
                    if let Some(fr) = stack.last_mut() {
                        fr.reads.push(Read::Call((*f, *key)));
                    }
                }
                Rec::CallEnd { f, key, .. } => {
                    // the caller's durability is bounded by the callee's
                    let callee_dur = self.recs.get(&(*f, *key)).map(|r| r.dur).unwrap_or(0);
                    if let Some(fr) = stack.last_mut() {
                        fr.dur = fr.dur.min(callee_dur);
                    }
                    if self.flags.must_exec {
                        let k = (*f, *key);
                        if let Some(r) = self.recs.get(&k) {
                            if r.untracked && r.last_exec_rev != self.rev {
                                return Err((
                                    "untracked-not-reexecuted".into(),
                                    format!(
                                        "{k:?} last executed with an untracked read in revision #{} but answered in revision #{} without re-executing",
                                        r.last_exec_rev, self.rev
                                    ),
                                ));
                            }
                            if r.untracked {
                                stats.bump("untracked_answers_checked", 1);
                            }
                        }
                    }
                }
                Rec::ReadFld { id, w, .. } => {
                    if let Some(f) = stack.last_mut() {
                        f.reads.push(Read::Fld(*id, *w));
                        // durability of struct fields is not modelled: assume the lowest, which
                        // only makes "became less durable" (a justification) more frequent
                        f.dur = 0;
                    }
                }
                Rec::Interned { id, .. } => {
                    self.seen_ids.insert(*id);
                    if let Some(f) = stack.last_mut() {
                        f.reads.push(Read::Int(*id));
                        f.dur = 0;
                    }
                }
                Rec::Exit { f, key, val, unwinding, .. } => {
                    let k = (*f, *key);
                    let fr = stack.pop();
                    if let Some(fr) = fr {
                        debug_assert_eq!(fr.k, k);
                        if !*unwinding {
                            let prev = self.recs.get(&k);
                            let changed = prev.map(|p| p.val != *val || fr.dur < p.dur).unwrap_or(true);
                            let mut execs = prev.map(|p| p.execs.clone()).unwrap_or_default();
                            execs.push((i, changed));
                            if prev.is_some() && !changed {
                                stats.bump("reexecutions_with_equal_value", 1);
                            }
                            self.recs.insert(
                                k,
                                KRec {
                                    last_valid_op: i,
                                    reads: fr.reads,
                                    val: *val,
                                    untracked: fr.untracked,
                                    execs,
                                    last_exec_rev: self.rev,
                                    last_valid_rev: self.rev,
                                    dur: fr.dur,
                                },
                            );
                        }
                    }
                }
                Rec::Ev { k: EvK::DidValidateMemo, key: Some(key), .. } => {
                    self.reused += 1;
                    stats.bump("memos_validated_without_execution", 1);
                    if self.flags.alias {
                        if let Some(k) = self.s2m.get(key) {
                            if let Some(rec) = self.recs.get(k) {
                                for rd in &rec.reads {
                                    let dead = match rd {
                                        Read::Int(id) => self.dead_ids.contains(id),
                                        Read::Fld(id, _) => self.dead_ids.contains(id),
                                        Read::Call((F::OnTs | F::OnTs2 | F::Sp | F::OnTsc | F::OnIs(_), id)) => self.dead_ids.contains(id),
                                        _ => false,
                                    };
                                    if dead {
                                        return Err((
                                            "reused-after-reclaim".into(),
                                            format!("{k:?} depended on {rd:?}, whose identity has been reclaimed since, but its memo was validated as unchanged"),
                                        ));
                                    }
                                }
                                stats.bump("validated_memos_checked_for_dead_ids", 1);
                            }
                        }
                    }
                    if let Some(k) = self.s2m.get(key) {
                        if let Some(r) = self.recs.get_mut(k) {
                            r.last_valid_op = i;
                            r.last_valid_rev = self.rev;
                        }
                    }
                }
                Rec::Ev { k: EvK::DidDiscard, key: Some(key), .. } => {
                    stats.bump("discards", 1);
                    if let Some(k) = self.s2m.get(key) {
                        self.recs.remove(k);
                    }
                }
                Rec::Ev { k: EvK::DidReuseInterned, key: Some(key), .. } => {
                    if !self.flags.intern {
                        stats.bump("interned_slots_reused", 1);
                    }
                    self.intern_reuse.push((i, slot_of(key.id)));
                    // every id previously seen in that slot is dead now
                    let slot = slot_of(key.id);
                    for x in self.seen_ids.iter().filter(|x| slot_of(**x) == slot && **x != key.id) {
                        self.dead_ids.insert(*x);
                    }
                    self.seen_ids.insert(key.id);
                }
                Rec::Interned { id, .. } if stack.is_empty() => {
                    self.seen_ids.insert(*id);
                }
                Rec::Ev { k: EvK::WillIterate(it), .. } => {
                    stats.bump("cycle_iterations", 1);
                    let e = stats.maxima.entry("max_iteration_index".into()).or_insert(0);
                    *e = (*e).max(*it as u64);
                    if self.flags.iter_bound && *it as u32 > 200 {
                        return Err(("iteration-bound".into(), format!("fixpoint iteration {it} exceeds the bound of 200")));
                    }
                }
                _ => {}
            }
        }
        if let Some(k) = reentered {
            if !matches!(out, Out::Panic(ql::items::Pk::Cycle)) {
                return Err((
                    "reentered-without-panic".into(),
                    format!("{k:?} has no cycle handling and was called while it was executing, but the request ended in {out:?} instead of a cycle panic"),
                ));
            }
        } else if matches!(out, Out::Panic(ql::items::Pk::Cycle)) {
            stats.bump("cycle_panics_without_observed_reentry", 1);
        }
        if self.flags.intern {
            // which interned ids does each memo depend on (as of its last execution)?
            self.sub.int_reads.clear();
            for (sk, k) in &self.s2m {
                if let Some(r) = self.recs.get(k) {
                    let ids: Vec<u64> = r.reads.iter().filter_map(|rd| if let Read::Int(id) = rd { Some(*id) } else { None }).collect();
                    if !ids.is_empty() {
                        self.sub.int_reads.insert((format!("{:?}", sk.ing), sk.id), ids);
                    }
                }
            }
        }
        self.sub.after_op(&self.flags, i, op, exp, out, log, sess, world, pre_world, stats, self.rev)
    }

    /// Track per-field change history of tracked structs.
    fn note_struct_rec(&mut self, i: usize, r: &Rec) {
        if let Rec::Made { id, ident, f, g, .. } = r {
            let prev = self.structs.get(id).copied();
            let ch = |sel: fn(&(u8, u8, u8)) -> u8, cur: u8| prev.as_ref().map(|p| sel(p) != cur).unwrap_or(true);
            let c0 = ch(|p| p.0, *ident);
            let c1 = ch(|p| p.1, *f);
            let c2 = ch(|p| p.2, *g);
            self.fld_hist.entry((*id, 0)).or_default().push((i, c0));
            self.fld_hist.entry((*id, 1)).or_default().push((i, c1));
            self.fld_hist.entry((*id, 2)).or_default().push((i, c2));
            self.structs.insert(*id, (*ident, *f, *g));
        }
        if let Rec::Ev { k: EvK::DidDiscard, key: Some(key), .. } = r {
            // a discarded struct: forget its field history so that a later struct in the same
            // slot counts as new
            let id = key.id;
            if self.structs.contains_key(&id) {
                self.dead_ids.insert(id);
            }
            if self.structs.remove(&id).is_some() {
                for w in 0..3u8 {
                    self.fld_hist.remove(&(id, w));
                }
            }
        }
    }

    /// Detectors for the two known cycle defects of the pinned tree (DESIGN.md, known findings).
    /// They look for the *cause*, not the symptom, so that any other wrong answer is still
    /// reported as a new violation:
    ///  E1: a `cycle_result` function whose last execution was inside a cycle (as head or as
    ///      participant) is re-executed in a later revision and completes without any cycle being
    ///      hit inside its activation: its value switches from the fallback to the body value
    ///      although no recorded dependency has a newer `changed_at` (and, if the cycle still
    ///      exists from another entry point, the body value is wrong outright);
    ///  E2: the memo of a former cycle participant is validated without execution although an
    ///      input field read by it (directly or through cycle-handling callees, i.e. the
    ///      dependencies salsa flattens) was written since it last executed.
    pub fn pre_scan(&mut self, i: usize, op: &Op, log: &[Rec], sess: &Sess) {
        if matches!(op, Op::RoundTrip) {
            self.had_round_trip = true;
        }
        if matches!(op, Op::MkLruCap(_)) {
            self.mk_lru_used = true;
        }
        let rd = format!("{:?}", salsa::plumbing::current_revision(&sess.db));
        if rd != self.last_rev_dbg {
            self.rev += 1;
            self.last_rev_dbg = rd;
        }
        let _ = (i, op);
        if matches!(op, Op::RoundTrip) {
            self.rt_rev = self.rev;
        }
        // (key, cycle hit inside the activation)
        let mut stack: Vec<(K, bool)> = Vec::new();
        for r in log {
            match r {
                Rec::Enter { f, key, .. } => {
                    if *f == F::Sp && self.flags.specify && self.sub.sp_spec_state.get(key) == Some(&true) {
                        self.sub.taint_spec_switch = true;
                        self.sub.taint_comp_to_spec = false;
                    }
                    stack.push(((*f, *key), false))
                }
                Rec::Specified { id, .. } => {
                    // a key whose value was computed by the body earlier (in another execution
                    // of the creator) now gets a specified value: the latest switch decides the class
                    if self.flags.specify && self.sub.sp_computed.contains(id) && self.sub.sp_spec_state.get(id) != Some(&true) {
                        self.sub.taint_comp_to_spec = true;
                        self.sub.taint_spec_switch = false;
                    }
                }
                Rec::CallBegin { f, key, .. } => {
                    let k = (*f, *key);
                    if let Some(pos) = stack.iter().position(|fr| fr.0 == k) {
                        for fr in stack[pos..].iter_mut() {
                            fr.1 = true;
                        }
                    }
                }
                Rec::Exit { f, key, unwinding, .. } => {
                    let k = (*f, *key);
                    if let Some((fk, hit)) = stack.pop() {
                        if fk == k && !*unwinding && *f == F::Fb {
                            if !hit && (self.participant.contains(&k) || self.last_exec_cyclic.contains(&k)) {
                                if let Some(rec) = self.recs.get(&k) {
                                    if rec.last_exec_rev < self.rev {
                                        self.taint_fbp = true;
                                    }
                                }
                            }
                            self.pending_cyc.push((k, hit));
                        }
                    }
                }
                Rec::Ev { k: EvK::DidValidateMemo, key: Some(sk), .. } => {
                    if let Some(k) = self.s2m.get(sk).copied() {
                        if k.0.has_cycle_handling() && self.participant.contains(&k) {
                            if let Some(rec) = self.recs.get(&k) {
                                let since = rec.execs.last().map(|e| e.0).unwrap_or(0);
                                if rec.last_exec_rev < self.rev && self.flat_input_written(k, since) {
                                    self.taint_stale = true;
                                }
                            }
                        }
                    }
                }
                _ => {}
            }
        }
    }

    /// Was an input field in the flattened dependency set of `k` written after op `since`?
    fn flat_input_written(&self, k: K, since: usize) -> bool {
        let mut seen: std::collections::HashSet<K> = Default::default();
        let mut todo = vec![k];
        while let Some(x) = todo.pop() {
            if !seen.insert(x) {
                continue;
            }
            let Some(r) = self.recs.get(&x) else { continue };
            for rd in &r.reads {
                match rd {
                    Read::Cell(c) => {
                        if self.writes.iter().any(|(op, w)| *op > since && matches!(w, Write::Cell(y) if y == c)) {
                            return true;
                        }
                    }
                    Read::Code(n) => {
                        if self.writes.iter().any(|(op, w)| *op > since && matches!(w, Write::Code(y) if y == n)) {
                            return true;
                        }
                    }
                    Read::Call(k2) if k2.0.has_cycle_handling() => todo.push(*k2),
                    _ => {}
                }
            }
        }
        false
    }

    /// Attribute a wrong answer to one of the known cycle defects, if its cause was observed
    /// earlier in this history.
    pub fn classify(&self, out: &Out) -> Option<&'static str> {
        if let Out::Panic(ql::items::Pk::Other(m)) = out {
            // (the assertion also fires for a function without cycle handling that took part in
            // the iteration of a fixpoint cycle, hence the test on the program, not on the name)
            if m.contains("returned the same value, but the previous execution changed at")
                && self.prog.nodes.iter().any(|n| matches!(n.kind, Kind::Fx | Kind::Fxj | Kind::Fb))
            {
                return Some("cycle-backdate-assert");
            }
        }
        if let Out::Panic(ql::items::Pk::Other(m)) = out {
            if self.flags.persist && self.had_round_trip && m.contains("cannot delete read-locked id") {
                return Some("struct-read-locked-by-serialization");
            }
            if self.flags.persist && m.contains("values are serialized in allocation order") {
                return Some("deleted-struct-slot-breaks-deserialization");
            }
        }
        if self.flags.persist
            && self.had_round_trip
            && self.rev == self.rt_rev
            && self.prog.nodes.iter().any(|n| n.kind == Kind::Mk)
        {
            // same cause, value flavour: a struct re-created in the revision in which the database
            // was serialized counts as already updated, so its fields keep their old values
            return Some("struct-read-locked-by-serialization");
        }
        if self.sub.taint_spec_switch {
            return Some("specified-to-computed-switch-not-propagated");
        }
        if self.sub.taint_comp_to_spec {
            return Some("computed-to-specified-switch-not-propagated");
        }
        if self.taint_fbp {
            return Some("fallback-participant-reexecuted-outside-its-cycle");
        }
        if self.taint_stale {
            return Some("stale-cycle-participant-memo-validated");
        }
        None
    }

    pub fn at_end(&mut self, sess: &mut Sess, world: &World, stats: &mut Stats) -> Result<(), (String, String)> {
        self.sub.at_end(&self.flags, sess, world, stats)
    }
}

pub type OrdMap<A, B> = BTreeMap<A, B>;
pub type OrdSet<A> = BTreeSet<A>;
