//! Program generators (QL) for the sequential properties.

use ql::ex::*;

fn k(v: u8) -> Ex {
    Ex::K(v)
}
fn cell(c: u8) -> Ex {
    Ex::Cell(c)
}
fn call(n: u8) -> Ex {
    Ex::Call(n)
}

pub fn mk1(cond2: Ex) -> Ex {
    Ex::Mk(vec![
        MkEnt { cond: k(1), ident: cell(0), f: cell(1), g: k(5), variant: 0, post: vec![] },
        MkEnt { cond: cond2, ident: k(1), f: Ex::add(cell(0), cell(1)), g: cell(0), variant: 0, post: vec![] },
    ])
}

/// Leaf templates (node 0).
pub fn leaf(i: usize) -> NodeDef {
    match i {
        0 => NodeDef::new(Kind::Ev, k(3)),
        1 => NodeDef::new(Kind::Ev, cell(0)),
        2 => NodeDef::new(Kind::Ev, Ex::add(Ex::Ext(0), cell(0))),
        3 => NodeDef::new(Kind::Ev, Ex::IntFn(1, cell(0).b())),
        4 => NodeDef::new(Kind::Mk, mk1(cell(1))),
        _ => NodeDef::new(Kind::Ev, Ex::add(cell(0), cell(1))),
    }
}
pub const N_LEAF: usize = 6;

/// Mid templates (node 1) over node 0.
pub fn mid(i: usize, leaf_is_mk: bool) -> NodeDef {
    let c0 = || if leaf_is_mk { Ex::Len(0) } else { call(0) };
    match i {
        0 => NodeDef::new(Kind::Ev, c0()),
        1 => NodeDef::new(Kind::NoEq, c0()),
        2 => NodeDef::new(Kind::Ev, if leaf_is_mk { Ex::Fld(0, 1, 2) } else { Ex::Call2(0, 1) }),
        3 => NodeDef::new(Kind::Ev, Ex::add(c0(), cell(1))),
        4 => NodeDef::new(Kind::Ev, Ex::ifc(1, c0(), k(7))),
        5 => NodeDef::new(Kind::Ev, Ex::iff(c0(), cell(1), k(2))),
        6 => NodeDef::new(Kind::Ev, if leaf_is_mk { Ex::Fld(0, 0, 1) } else { Ex::and(c0(), k(1)) }),
        _ => NodeDef::new(Kind::Ev, Ex::IntFn(2, c0().b())),
    }
}
pub const N_MID: usize = 8;

/// Top templates (node 2) over nodes 0 and 1. Returns (node, root0).
pub fn top(i: usize, leaf_is_mk: bool) -> (NodeDef, Option<u8>) {
    let c0 = || if leaf_is_mk { Ex::Len(0) } else { call(0) };
    match i {
        0 => (NodeDef::new(Kind::Ev, call(1)), None),
        1 => (NodeDef::new(Kind::Ev, Ex::add(c0(), call(1))), None),
        2 => (NodeDef::new(Kind::Ev, Ex::ifc(0, call(1), c0())), None),
        3 => (NodeDef::new(Kind::Ev, Ex::iff(call(1), c0(), k(9))), None),
        4 => (NodeDef::new(Kind::Ev, Ex::Call2(1, 2)), None),
        5 => (NodeDef::new(Kind::Ev, Ex::add(Ex::Call0, k(1))), Some(1)),
        6 => (NodeDef::new(Kind::Ev, if leaf_is_mk { Ex::OnTs(0, 0, 0) } else { Ex::add(call(1), k(1)) }), None),
        7 => (NodeDef::new(Kind::Ev, if leaf_is_mk { Ex::add(Ex::Fld(0, 0, 0), Ex::OnTs(0, 1, 1)) } else { Ex::or(call(1), c0()) }), None),
        8 => (NodeDef::new(Kind::NoEq, call(1)), None),
        _ => (NodeDef::new(Kind::Lru, Ex::add(call(1), cell(0))), None),
    }
}
pub const N_TOP: usize = 10;

pub fn p3(l: usize, m: usize, t: usize) -> Program {
    let is_mk = l == 4;
    let (tn, root0) = top(t, is_mk);
    Program {
        name: format!("p3-{l}-{m}-{t}"),
        cells: vec![(0, Dur::Low), (1, Dur::Low)],
        nodes: vec![leaf(l), mid(m, is_mk), tn],
        ext: vec![0],
        root0,
    }
}

pub fn all_p3() -> Vec<Program> {
    let mut v = Vec::new();
    for l in 0..N_LEAF {
        for m in 0..N_MID {
            for t in 0..N_TOP {
                v.push(p3(l, m, t));
            }
        }
    }
    v
}

/// 48 programs: every (leaf, mid) pair with a varying top template.
pub fn quick_p3() -> Vec<Program> {
    let mut v = Vec::new();
    for l in 0..N_LEAF {
        for m in 0..N_MID {
            v.push(p3(l, m, (l * 3 + m * 7) % N_TOP));
        }
    }
    v
}

/// Four-node programs: diamond and chain shapes with mixed features.
pub fn p4_set() -> Vec<Program> {
    let mut v = Vec::new();
    for l in 0..N_LEAF {
        for t in [0usize, 1, 3, 4, 9] {
            let is_mk = l == 4;
            let c0 = || if is_mk { Ex::Len(0) } else { call(0) };
            let (tn, root0) = top(t, is_mk);
            // node 3 reads node 2 and node 1 (diamond over node 1)
            let n3 = NodeDef::new(Kind::Ev, Ex::add(call(2), Ex::ifc(1, call(1), c0())));
            v.push(Program {
                name: format!("p4-{l}-{t}"),
                cells: vec![(0, Dur::Low), (1, Dur::Low)],
                nodes: vec![leaf(l), mid((l + t) % N_MID, is_mk), tn, n3],
                ext: vec![0],
                root0,
            });
        }
    }
    v
}

pub fn base_alphabet(p: &Program) -> Vec<Op> {
    let mut a = vec![Op::Set(0, 0), Op::Set(0, 1), Op::Set(1, 0), Op::Set(1, 1), Op::Syn(Dur::Low)];
    let uses_ext = p.nodes.iter().any(|n| format!("{:?}", n.ex).contains("Ext("));
    if uses_ext {
        a.push(Op::SetExtSyn(0, 0, Dur::Low));
        a.push(Op::SetExtSyn(0, 1, Dur::Low));
    }
    for n in 0..p.nodes.len() as u8 {
        a.push(Op::Q(n));
    }
    if p.nodes[0].kind == Kind::Mk {
        a.push(Op::QFld(0, 1, 1));
    }
    a
}

/// Same programs with durabilities on cells and code.
pub fn with_durs(mut p: Program, d0: Dur, d1: Dur, dcode: Dur) -> Program {
    p.cells[0].1 = d0;
    p.cells[1].1 = d1;
    for n in p.nodes.iter_mut() {
        n.dur = dcode;
    }
    p.name = format!("{}-d{:?}{:?}{:?}", p.name, d0, d1, dcode);
    p
}

/// One tracked struct whose fields come from the two cells, a function keyed by the struct that
/// reads one tracked field, and a reader of the other: the struct's durability follows its
/// creator's, and functions that read only its fields must notice when it is lowered.
pub fn dur_struct(d0: Dur, d1: Dur, dcode: Dur) -> Program {
    let p = Program {
        name: "dur-struct".into(),
        cells: vec![(1, Dur::Low), (0, Dur::Low)],
        nodes: vec![
            NodeDef::new(Kind::Mk, Ex::Mk(vec![ent(k(1), k(3), cell(0), cell(1), 0)])),
            NodeDef::new(Kind::Ev, Ex::OnTs(0, 0, 0)),
            NodeDef::new(Kind::Ev, Ex::add(Ex::Fld(0, 0, 2), Ex::OnTs(0, 0, 1))),
        ],
        ext: vec![0],
        root0: None,
    };
    with_durs(p, d0, d1, dcode)
}

pub fn dur_alphabet(p: &Program) -> Vec<Op> {
    let mut a = Vec::new();
    for c in 0..2u8 {
        for v in 0..2u8 {
            a.push(Op::Set(c, v));
        }
    }
    // durability-changing writes on cell 0, with equal and with different values
    for v in 0..2u8 {
        for d in DURS {
            a.push(Op::SetD(0, v, d));
        }
    }
    for d in [Dur::Low, Dur::High, Dur::Never] {
        a.push(Op::Syn(d));
    }
    for n in 0..p.nodes.len() as u8 {
        a.push(Op::Q(n));
    }
    a
}

/// Programs whose functions read untracked external cells at depth 0..2.
pub fn untracked_set() -> Vec<Program> {
    let mut v = Vec::new();
    let ext0 = || Ex::Ext(0);
    let leafs: Vec<(&str, NodeDef)> = vec![
        ("ext", NodeDef::new(Kind::Ev, ext0())),
        ("ext+cell", NodeDef::new(Kind::Ev, Ex::add(ext0(), cell(0)))),
        ("ext&1", NodeDef::new(Kind::Ev, Ex::and(ext0(), k(1)))),
        ("ifc-ext", NodeDef::new(Kind::Ev, Ex::ifc(0, ext0(), k(4)))),
        ("ext-noeq", NodeDef::new(Kind::NoEq, ext0())),
    ];
    let mids: Vec<(&str, NodeDef)> = vec![
        ("call", NodeDef::new(Kind::Ev, call(0))),
        ("and1", NodeDef::new(Kind::Ev, Ex::and(call(0), k(1)))),
        ("ifc", NodeDef::new(Kind::Ev, Ex::ifc(1, call(0), k(6)))),
        ("hi", NodeDef::new(Kind::Ev, Ex::add(call(0), cell(1))).dur(Dur::High)),
    ];
    for (ln, l) in &leafs {
        for (mn, m) in &mids {
            let t = NodeDef::new(Kind::Ev, Ex::add(call(1), Ex::and(call(0), k(2))));
            v.push(Program {
                name: format!("ut-{ln}-{mn}"),
                cells: vec![(0, Dur::Low), (1, Dur::High)],
                nodes: vec![l.clone(), m.clone(), t],
                ext: vec![0],
                root0: None,
            });
        }
    }
    // everything HIGH except cell 0: a function that starts (or stops) reading untracked state
    // when a HIGH input changes, with the untracked value equal to the constant of the other
    // branch (so the result is equal and may be backdated); one operation deeper ("deep-")
    let hi_leafs: Vec<(&str, Ex)> = vec![
        ("becomes", Ex::ifc(1, k(1), ext0())),
        ("ceases", Ex::ifc(1, ext0(), k(1))),
    ];
    let hi_mids: Vec<(&str, Ex)> = vec![("call", call(0)), ("and1", Ex::and(call(0), k(1)))];
    for (ln, l) in &hi_leafs {
        for (mn, m) in &hi_mids {
            v.push(Program {
                name: format!("deep-ut-hi-{ln}-{mn}"),
                cells: vec![(0, Dur::Low), (1, Dur::High)],
                nodes: vec![
                    NodeDef::new(Kind::Ev, l.clone()).dur(Dur::High),
                    NodeDef::new(Kind::Ev, m.clone()).dur(Dur::High),
                    NodeDef::new(Kind::Ev, Ex::add(call(1), Ex::and(call(0), k(2)))).dur(Dur::High),
                ],
                ext: vec![1],
                root0: None,
            });
        }
    }
    v
}

pub fn untracked_alphabet(p: &Program) -> Vec<Op> {
    let mut a = vec![
        Op::SetExtSyn(0, 0, Dur::Low),
        Op::SetExtSyn(0, 1, Dur::Low),
        Op::SetExtSyn(0, 2, Dur::Medium),
        Op::SetExtSyn(0, 3, Dur::High),
        Op::Set(0, 0),
        Op::Set(0, 1),
        Op::Set(1, 1),
        Op::Set(1, 0),
    ];
    for n in 0..p.nodes.len() as u8 {
        a.push(Op::Q(n));
    }
    a
}

// ------------------------------------------------------------------------------------------------
// cyclic programs (bit-set lattice over 3 bits)

/// a <-> b two-cycle with input masks
pub fn cyc2(kind: Kind) -> Program {
    Program {
        name: format!("cyc2-{kind:?}"),
        cells: vec![(1, Dur::Low), (0, Dur::Low)],
        nodes: vec![
            NodeDef::new(kind, Ex::or(call(1), cell(0))),
            NodeDef::new(kind, Ex::or(call(0), k(2))),
        ],
        ext: vec![0],
        root0: None,
    }
}

/// a -> b -> c -> a
pub fn cyc3(kind: Kind) -> Program {
    Program {
        name: format!("cyc3-{kind:?}"),
        cells: vec![(1, Dur::Low), (0, Dur::Low)],
        nodes: vec![
            NodeDef::new(kind, Ex::or(call(1), cell(0))),
            NodeDef::new(kind, Ex::or(call(2), k(2))),
            NodeDef::new(kind, Ex::or(call(0), k(4))),
        ],
        ext: vec![0],
        root0: None,
    }
}

/// nested: a <-> b <-> c
pub fn nested3(kind: Kind) -> Program {
    Program {
        name: format!("nested3-{kind:?}"),
        cells: vec![(1, Dur::Low), (0, Dur::Low)],
        nodes: vec![
            NodeDef::new(kind, Ex::or(call(1), cell(0))),
            NodeDef::new(kind, Ex::or(Ex::or(call(0), call(2)), k(2))),
            NodeDef::new(kind, Ex::or(call(1), k(4))),
        ],
        ext: vec![0],
        root0: None,
    }
}

/// conditional cycle: the back edge exists only while cell 1 != 0; plain caller on top
pub fn cond_cycle(kind: Kind) -> Program {
    Program {
        name: format!("condcyc-{kind:?}"),
        cells: vec![(1, Dur::Low), (1, Dur::Low)],
        nodes: vec![
            NodeDef::new(kind, Ex::or(call(1), cell(0))),
            NodeDef::new(kind, Ex::ifc(1, Ex::or(call(0), k(2)), k(4))),
            NodeDef::new(Kind::Ev, Ex::add(call(0), call(1))),
        ],
        ext: vec![0],
        root0: None,
    }
}

/// A cycle that exists only while the head's own flag input is 0; the participant reads nothing
/// but the head (C22: a panic in the head leaves the participant with a provisional memo that
/// must not be reused once the cycle is gone).
pub fn head_flag_cycle(kind: Kind) -> Program {
    Program {
        name: format!("deeper-headflagcyc-{kind:?}"),
        cells: vec![(0, Dur::Low), (1, Dur::Low)],
        nodes: vec![
            NodeDef::new(kind, Ex::ifc(0, k(4), Ex::or(call(1), k(1)))),
            // (a function without cycle handling that takes part in the head's iteration)
            NodeDef::new(Kind::Ev, Ex::or(call(0), k(2))),
            NodeDef::new(Kind::Ev, Ex::add(call(0), k(1))),
        ],
        ext: vec![0],
        root0: None,
    }
}

/// As `head_flag_cycle`, but the code of the participants has HIGH durability: the participant's
/// provisional memo then reads nothing of LOW durability and passes the shallow durability check
/// after a write of the (LOW) flag (seeded change C22-r4).
pub fn head_flag_cycle_hi(kind: Kind) -> Program {
    let mut p = head_flag_cycle(kind);
    p.name = format!("deeper-headflagcyc-hi-{kind:?}");
    p.nodes[1].dur = Dur::High;
    p.nodes[2].dur = Dur::High;
    p
}

/// A three-level chain whose middle function is backdated: node 0 follows cell 0, node 1 maps both
/// values of node 0 to the same result, node 2 reads node 1 and the unrelated cell 1 (C03: after
/// the backdating revision an unrelated write must not re-execute node 1; seeded change C03-r5
/// verifies dependencies against `changed_at` instead of `verified_at`). Explored one operation
/// deeper (the history needs five operations).
pub fn backdate_chain() -> Vec<Program> {
    let mk = |name: &str, top: Ex| Program {
        name: format!("deep-backdate-chain-{name}"),
        cells: vec![(0, Dur::Low), (1, Dur::Low)],
        nodes: vec![
            NodeDef::new(Kind::Ev, cell(0)),
            NodeDef::new(Kind::Ev, Ex::or(call(0), k(1))),
            NodeDef::new(Kind::Ev, top),
        ],
        ext: vec![0],
        root0: None,
    };
    vec![mk("a", Ex::add(call(1), cell(1))), mk("b", call(1))]
}

/// The 27 monotone node templates over three nodes (C12/C13).
pub fn cyc_template(t: usize) -> Ex {
    let pairs = [(0u8, 1u8), (0, 2), (1, 2)];
    let ordered = [(0u8, 1u8), (0, 2), (1, 0), (1, 2), (2, 0), (2, 1)];
    match t {
        0 => k(0),
        1 => k(1),
        2 => cell(1),
        3..=5 => call((t - 3) as u8),
        6..=8 => {
            let (i, j) = pairs[t - 6];
            Ex::or(call(i), call(j))
        }
        9..=11 => Ex::or(call((t - 9) as u8), k(2)),
        12..=14 => Ex::or(call((t - 12) as u8), cell(1)),
        15..=17 => {
            let (i, j) = pairs[t - 15];
            Ex::and(call(i), call(j))
        }
        18..=20 => Ex::and(call((t - 18) as u8), k(3)),
        _ => {
            let (i, j) = ordered[t - 21];
            Ex::ifc(0, call(i), call(j))
        }
    }
}
pub const N_CYC_T: usize = 27;

pub fn cyc_prog(kind: Kind, t0: usize, t1: usize, t2: usize) -> Program {
    Program {
        name: format!("cy-{kind:?}-{t0}-{t1}-{t2}"),
        cells: vec![(1, Dur::Low), (2, Dur::Low)],
        nodes: vec![
            NodeDef::new(kind, cyc_template(t0)).alt(cyc_template((t0 + 13) % N_CYC_T)),
            NodeDef::new(kind, cyc_template(t1)),
            NodeDef::new(kind, cyc_template(t2)),
        ],
        ext: vec![0],
        root0: None,
    }
}

pub fn all_cyc(kind: Kind) -> Vec<Program> {
    let mut v = Vec::new();
    for a in 0..N_CYC_T {
        for b in 0..N_CYC_T {
            for c in 0..N_CYC_T {
                v.push(cyc_prog(kind, a, b, c));
            }
        }
    }
    v
}

/// Named shapes plus a stride sample of the full space.
pub fn quick_cyc(kind: Kind, stride: usize) -> Vec<Program> {
    let mut v = vec![];
    let named: [(usize, usize, usize); 16] = [
        (16, 8, 6),   // participant reaching the head only through a still-executing participant
        (4, 26, 8),   // input-controlled branch between two back edges
        (3, 1, 1),    // self loop on node 0
        (10, 9, 1),   // 0 <-> 1 with constants
        (13, 12, 2),  // 0 <-> 1 with input masks
        (4, 5, 9),    // 3-cycle 0->1->2->0
        (10, 7, 10),  // nested: 0 <-> 1 <-> 2
        (22, 9, 1),   // conditional cycle
        (6, 9, 1),    // cycle with tail
        (7, 9, 9),    // two cycles sharing node 0
        (16, 12, 13), // meet of two cyclic branches
        (24, 9, 9),   // branch between two back edges
        (13, 3, 4),   // all reach node 0
        (9, 10, 11),  // three self loops with constants
        (21, 21, 25), // conditional everywhere
        (12, 16, 6),  // mixed join/meet
    ];
    for (a, b, c) in named {
        let mut p = cyc_prog(kind, a, b, c);
        // plain caller outside the cycles
        p.nodes.push(NodeDef::new(Kind::Ev, Ex::add(call(0), call(2))));
        p.name = format!("{}-caller", p.name);
        v.push(p);
    }
    for (n, p) in all_cyc(kind).into_iter().enumerate() {
        if n % stride == stride / 2 {
            v.push(p);
        }
    }
    v
}

pub fn cyc_alphabet(p: &Program) -> Vec<Op> {
    let mut a = vec![Op::Set(0, 0), Op::Set(0, 1), Op::Set(1, 0), Op::Set(1, 2)];
    for n in 0..p.nodes.len() as u8 {
        a.push(Op::Q(n));
    }
    a.push(Op::Swap(0));
    a
}

/// C15: systems without any fixpoint (selected by brute force), with a monotone alternative.
pub fn nonconv_set() -> Vec<Program> {
    let succ = |e: Ex| Ex::Succ(e.b());
    let not = |e: Ex| Ex::Not(e.b());
    let mut v = Vec::new();
    let mk = |name: &str, nodes: Vec<NodeDef>| Program {
        name: format!("nc-{name}"),
        cells: vec![(1, Dur::Low), (2, Dur::Low)],
        nodes,
        ext: vec![0],
        root0: None,
    };
    // node 2 is always an unrelated plain function of cell 1
    let unrelated = || NodeDef::new(Kind::Ev, Ex::add(cell(1), k(1)));
    v.push(mk("succ-self", vec![
        NodeDef::new(Kind::Fx, succ(call(0))).alt(Ex::or(call(0), k(1))),
        NodeDef::new(Kind::Ev, Ex::add(call(0), k(1))),
        unrelated(),
    ]));
    v.push(mk("not-pair", vec![
        NodeDef::new(Kind::Fx, not(call(1))).alt(Ex::or(call(1), k(1))),
        NodeDef::new(Kind::Fx, call(0)),
        unrelated(),
    ]));
    v.push(mk("succ-pair", vec![
        NodeDef::new(Kind::Fx, succ(call(1))).alt(Ex::or(call(1), cell(1))),
        NodeDef::new(Kind::Fx, Ex::or(call(0), k(0))),
        unrelated(),
    ]));
    v.push(mk("nested-inner-diverges", vec![
        NodeDef::new(Kind::Fx, Ex::or(call(1), k(1))),
        NodeDef::new(Kind::Fx, Ex::or(succ(call(1)), Ex::and(call(0), k(0)))).alt(Ex::or(call(1), Ex::and(call(0), k(3)))),
        unrelated(),
    ]));
    v.push(mk("cond-diverges", vec![
        NodeDef::new(Kind::Fx, Ex::ifc(0, not(call(0)), Ex::or(call(0), k(2)))).alt(Ex::or(call(0), k(4))),
        NodeDef::new(Kind::Ev, call(0)),
        unrelated(),
    ]));
    v.push(mk("not-triangle", vec![
        NodeDef::new(Kind::Fx, not(call(2))).alt(call(2)),
        NodeDef::new(Kind::Fx, call(0)),
        NodeDef::new(Kind::Fx, Ex::or(call(1), k(0))),
        unrelated(),
    ]));
    v
}

pub fn nonconv_alphabet(p: &Program) -> Vec<Op> {
    let mut a = vec![Op::Set(0, 0), Op::Set(0, 1), Op::Set(1, 1), Op::Swap(if p.name.contains("nested") { 1 } else { 0 })];
    for n in 0..p.nodes.len() as u8 {
        a.push(Op::Q(n));
    }
    a
}

// ------------------------------------------------------------------------------------------------
// C05: lru programs

pub fn lru_set() -> Vec<Program> {
    let mut v = Vec::new();
    v.push(Program {
        name: "lru-a".into(),
        cells: vec![(0, Dur::Low), (0, Dur::Low)],
        nodes: vec![
            NodeDef::new(Kind::Lru, Ex::add(cell(0), k(1))),
            NodeDef::new(Kind::Lru, Ex::add(cell(0), k(2))),
            NodeDef::new(Kind::Lru, Ex::add(cell(1), k(3))),
            NodeDef::new(Kind::Lru, Ex::add(Ex::Ext(0), k(4))),
            NodeDef::new(Kind::Ev, Ex::add(call(0), call(1))),
        ],
        ext: vec![0],
        root0: None,
    });
    v.push(Program {
        name: "lru-b".into(),
        cells: vec![(0, Dur::Low), (0, Dur::High)],
        nodes: vec![
            NodeDef::new(Kind::Lru, Ex::add(cell(0), k(1))),
            NodeDef::new(Kind::Lru, k(2)).dur(Dur::High),
            NodeDef::new(Kind::Lru, Ex::add(cell(1), k(3))).dur(Dur::High),
            NodeDef::new(Kind::Lru, Ex::and(cell(0), k(0))),
            NodeDef::new(Kind::Ev, Ex::add(call(2), call(3))),
        ],
        ext: vec![0],
        root0: None,
    });
    v
}

pub fn lru_alphabet(p: &Program) -> Vec<Op> {
    let mut a = Vec::new();
    for n in 0..p.nodes.len() as u8 {
        a.push(Op::Q(n));
    }
    a.push(Op::Set(0, 1));
    a.push(Op::Set(0, 0));
    a.push(Op::Syn(Dur::Low));
    a.push(Op::LruTrig);
    for c in [0u8, 1, 2, 3] {
        a.push(Op::LruCap(c));
    }
    if p.nodes.iter().any(|n| format!("{:?}", n.ex).contains("Ext(")) {
        // external state changing without a new revision: results must still be those of
        // unbounded caching (twin-database oracle)
        a.push(Op::SetExt(0, 1));
        a.push(Op::SetExt(0, 2));
    }
    a
}

// ------------------------------------------------------------------------------------------------
// C06 / C07: tracked-struct programs

fn ent(cond: Ex, ident: Ex, f: Ex, g: Ex, variant: u8) -> MkEnt {
    MkEnt { cond, ident, f, g, variant, post: vec![] }
}

pub fn struct_set() -> Vec<Program> {
    let mut v = Vec::new();
    v.push(Program {
        name: "mk-a".into(),
        cells: vec![(0, Dur::Low), (1, Dur::Low)],
        nodes: vec![
            NodeDef::new(
                Kind::Mk,
                Ex::Mk(vec![
                    ent(k(1), cell(0), cell(1), k(5), 0),
                    ent(cell(1), k(1), k(2), cell(0), 0),
                    ent(k(1), cell(0), k(7), k(8), 0),
                ]),
            ),
            NodeDef::new(Kind::Ev, Ex::OnTs(0, 0, 0)),
            NodeDef::new(Kind::Ev, Ex::add(Ex::Fld(0, 2, 2), Ex::OnTs(0, 1, 1))),
            NodeDef::new(Kind::Mk, Ex::Mk(vec![ent(k(1), cell(0), k(1), k(1), 0)])),
        ],
        ext: vec![0],
        root0: None,
    });
    v.push(Program {
        name: "mk-b-colliding-hash".into(),
        cells: vec![(0, Dur::Low), (1, Dur::Low)],
        nodes: vec![
            NodeDef::new(
                Kind::Mk,
                Ex::Mk(vec![
                    ent(cell(1), k(3), k(1), k(1), 1),
                    ent(k(1), cell(0), cell(1), k(2), 1),
                    ent(k(1), k(3), cell(0), k(3), 1),
                ]),
            ),
            NodeDef::new(Kind::Ev, Ex::OnTs(0, 1, 0)),
            NodeDef::new(Kind::Ev, Ex::add(Ex::Fld(0, 0, 0), Ex::Len(0))),
            NodeDef::new(Kind::Mk, Ex::Mk(vec![ent(k(1), cell(0), k(1), k(1), 1), ent(cell(0), k(3), k(1), k(1), 0)])),
        ],
        ext: vec![0],
        root0: None,
    });
    // the first program again with operations that shrink the cache of the creator function
    // (two creators, capacity 1: one creator's result is evicted at the next revision or trigger)
    let mut lru = v[0].clone();
    lru.name = "mk-a-lru".into();
    v.push(lru);
    v
}

pub fn struct_alphabet(p: &Program) -> Vec<Op> {
    let mut a = vec![Op::Set(0, 0), Op::Set(0, 1), Op::Set(0, 2), Op::Set(1, 0), Op::Set(1, 1)];
    for n in 0..p.nodes.len() as u8 {
        a.push(Op::Q(n));
    }
    if p.name.ends_with("-lru") {
        a.push(Op::MkLruCap(1));
        a.push(Op::LruTrig);
        return a;
    }
    a.push(Op::QFld(0, 0, 1));
    a.push(Op::QOnTs(0, 1, 0));
    a
}

/// C07: conditional creation (slot churn) + functions keyed by structs and by tuples
pub fn churn_struct_set() -> Vec<Program> {
    vec![
        // identity fields that change under a colliding hash: the slot is reclaimed in place
        // (new generation) on every change; consumers reach the struct through the creator only
        Program {
            name: "churn-colliding-identity".into(),
            cells: vec![(1, Dur::Low), (0, Dur::Low)],
            nodes: vec![
                NodeDef::new(Kind::Mk, Ex::Mk(vec![ent(k(1), cell(0), cell(1), k(3), 1), ent(cell(1), k(7), cell(0), k(1), 1)])),
                NodeDef::new(Kind::Ev, Ex::Fld(0, 0, 0)),
                NodeDef::new(Kind::Ev, Ex::add(Ex::OnTs(0, 0, 0), Ex::Fld(0, 1, 0))),
                NodeDef::new(Kind::Ev, Ex::add(call(1), Ex::Len(0))),
            ],
            ext: vec![0],
            root0: None,
        },
        Program {
        name: "churn-structs".into(),
        cells: vec![(1, Dur::Low), (0, Dur::Low)],
        nodes: vec![
            NodeDef::new(
                Kind::Mk,
                Ex::Mk(vec![ent(cell(0), k(1), cell(1), k(9), 0), ent(cell(1), k(2), cell(0), k(4), 0), ent(Ex::and(cell(0), cell(1)), k(1), k(3), cell(1), 1)]),
            ),
            NodeDef::new(Kind::Ev, Ex::OnTs(0, 0, 0)),
            NodeDef::new(Kind::Ev, Ex::add(Ex::Fld(0, 0, 1), Ex::OnTs(0, 1, 1))),
            NodeDef::new(Kind::Ev, Ex::add(Ex::Call2(1, 1), Ex::Call2(2, 1))),
        ],
        ext: vec![0],
        root0: None,
    }]
}

pub fn churn_struct_alphabet(p: &Program) -> Vec<Op> {
    let mut a = vec![Op::Set(0, 0), Op::Set(0, 1), Op::Set(1, 0), Op::Set(1, 1), Op::Set(1, 2)];
    if p.name.contains("colliding") {
        a = vec![Op::Set(0, 0), Op::Set(0, 1), Op::Set(0, 2), Op::Set(1, 0), Op::Set(1, 1)];
    }
    for n in 0..p.nodes.len() as u8 {
        a.push(Op::Q(n));
    }
    a.push(Op::QFld(0, 1, 1));
    a.push(Op::QOnTs(0, 0, 0));
    a.push(Op::Q2(1, 1));
    a
}

// ------------------------------------------------------------------------------------------------
// C07 / C08 / C09: interning programs

/// LOW function interning cell 0, LOW function interning cell 1, HIGH function interning cell 2,
/// a dependent of the first two.
pub fn intern_prog(ty: u8) -> Program {
    Program {
        name: format!("intern-ty{ty}"),
        cells: vec![(0, Dur::Low), (1, Dur::Low), (2, Dur::High)],
        nodes: vec![
            NodeDef::new(Kind::Ev, Ex::IntFn(ty, cell(0).b())),
            NodeDef::new(Kind::Ev, Ex::Int(ty, cell(1).b())),
            NodeDef::new(Kind::Ev, Ex::IntFn(ty, cell(2).b())).dur(Dur::High),
            NodeDef::new(Kind::Ev, Ex::add(call(0), call(1))),
        ],
        ext: vec![0],
        root0: None,
    }
}

pub fn intern_alphabet_full(p: &Program) -> Vec<Op> {
    let ty: u8 = p.name.trim_start_matches("intern-ty").parse().unwrap_or(1);
    vec![
        Op::Set(0, 0),
        Op::Set(0, 1),
        Op::Set(0, 2),
        Op::Set(1, 1),
        Op::Set(2, 1),
        Op::Syn(Dur::Low),
        Op::Q(0),
        Op::Q(1),
        Op::Q(2),
        Op::Q(3),
        Op::QInt(ty, 1),
    ]
}

/// reduced alphabet for the deep runs needed by revisions = 3
pub fn intern_alphabet_small(_p: &Program) -> Vec<Op> {
    vec![Op::Set(0, 0), Op::Set(0, 1), Op::Set(0, 2), Op::Syn(Dur::Low), Op::Q(0), Op::Q(1), Op::Q(3), Op::Q(2)]
}

// ------------------------------------------------------------------------------------------------
// C10: specify

fn ent_post(cond: Ex, ident: Ex, f: Ex, g: Ex, post: Vec<Post>) -> MkEnt {
    MkEnt { cond, ident, f, g, variant: 0, post }
}

pub fn specify_set() -> Vec<Program> {
    let mut v = Vec::new();
    // conditional specify; call before specify (computed value kept); call after specify
    v.push(Program {
        name: "spec-a".into(),
        cells: vec![(0, Dur::Low), (1, Dur::Low)],
        nodes: vec![
            NodeDef::new(
                Kind::Mk,
                Ex::Mk(vec![
                    ent_post(k(1), k(1), cell(0), cell(1), vec![Post::Spec { cond: cell(0), val: Ex::add(cell(1), k(0x20)) }]),
                    ent_post(k(1), k(2), k(1), cell(1), vec![Post::CallSp, Post::Spec { cond: cell(1), val: k(0x33) }]),
                    ent_post(cell(1), k(3), k(2), cell(0), vec![Post::Spec { cond: k(1), val: k(0x34) }, Post::CallSp]),
                ]),
            ),
            NodeDef::new(Kind::Ev, Ex::add(Ex::OnTs(0, 0, 2), Ex::OnTs(0, 1, 2))),
            NodeDef::new(Kind::Ev, Ex::OnTs(0, 2, 2)),
        ],
        ext: vec![0],
        root0: None,
    });
    // the struct is created before anything changeable is read (never-change durability), the
    // decision to specify depends on a LOW input read afterwards
    v.push(Program {
        name: "spec-never".into(),
        cells: vec![(0, Dur::Low), (1, Dur::Low)],
        nodes: vec![
            NodeDef::new(Kind::Mk, Ex::Mk(vec![ent_post(k(1), k(1), k(2), k(5), vec![Post::Spec { cond: cell(0), val: k(0x27) }])])).dur(Dur::Never),
            NodeDef::new(Kind::Ev, Ex::OnTs(0, 0, 2)),
            NodeDef::new(Kind::Ev, Ex::add(cell(1), k(1))),
        ],
        ext: vec![0],
        root0: None,
    });
    // durabilities: whether the creator specifies depends on a HIGH input alone or, after that
    // input changed, on a LOW input read before specifying (the specified value stays the same)
    v.push(Program {
        name: "spec-dur".into(),
        cells: vec![(1, Dur::Low), (0, Dur::High)],
        nodes: vec![
            NodeDef::new(Kind::Mk, Ex::Mk(vec![ent_post(k(1), k(1), k(2), k(5), vec![Post::Spec { cond: Ex::ifc(1, cell(0), k(1)), val: k(0x27) }])]))
                .dur(Dur::High),
            NodeDef::new(Kind::Ev, Ex::OnTs(0, 0, 2)).dur(Dur::High),
            NodeDef::new(Kind::Ev, Ex::add(cell(1), k(1))).dur(Dur::High),
        ],
        ext: vec![0],
        root0: None,
    });
    // impure user code: the creator keeps the handle of its struct outside salsa and, when it is
    // re-executed, specifies on that old handle before creating the struct again (must panic)
    v.push(Program {
        name: "spec-prev-handle".into(),
        cells: vec![(0, Dur::Low), (1, Dur::Low)],
        nodes: vec![
            NodeDef::new(Kind::Mk, Ex::Mk(vec![ent_post(k(1), k(1), cell(0), k(5), vec![Post::SpecPrev { val: k(0x29) }])])),
            NodeDef::new(Kind::Ev, Ex::OnTs(0, 0, 2)),
            NodeDef::new(Kind::Ev, Ex::add(cell(1), k(1))),
        ],
        ext: vec![0],
        root0: None,
    });
    // specify twice in one execution (panics when cell 0 != 0)
    v.push(Program {
        name: "spec-twice".into(),
        cells: vec![(0, Dur::Low), (1, Dur::Low)],
        nodes: vec![
            NodeDef::new(
                Kind::Mk,
                Ex::Mk(vec![ent_post(
                    k(1),
                    k(1),
                    cell(1),
                    k(5),
                    vec![Post::Spec { cond: k(1), val: k(0x21) }, Post::Spec { cond: cell(0), val: k(0x22) }],
                )]),
            ),
            NodeDef::new(Kind::Ev, Ex::OnTs(0, 0, 2)),
            NodeDef::new(Kind::Ev, Ex::add(cell(1), k(1))),
        ],
        ext: vec![0],
        root0: None,
    });
    // specify a struct created by another function (panics when cell 0 != 0)
    v.push(Program {
        name: "spec-foreign".into(),
        cells: vec![(0, Dur::Low), (1, Dur::Low)],
        nodes: vec![
            NodeDef::new(Kind::Mk, Ex::Mk(vec![ent_post(k(1), k(1), cell(1), k(5), vec![])])),
            NodeDef::new(
                Kind::Mk,
                Ex::Mk(vec![ent_post(k(1), k(2), k(1), k(1), vec![Post::SpecOther { cond: cell(0), node: 0, idx: 0, val: k(9) }])]),
            ),
            NodeDef::new(Kind::Ev, Ex::add(Ex::OnTs(0, 0, 2), Ex::Len(1))),
        ],
        ext: vec![0],
        root0: None,
    });
    v
}

pub fn specify_alphabet(p: &Program) -> Vec<Op> {
    let mut a = vec![Op::Set(0, 0), Op::Set(0, 1), Op::Set(1, 0), Op::Set(1, 1), Op::Syn(Dur::Low)];
    for n in 0..p.nodes.len() as u8 {
        a.push(Op::Q(n));
    }
    a.push(Op::QOnTs(0, 0, 2));
    a.push(Op::QOnTs(0, 1, 2));
    a
}

// ------------------------------------------------------------------------------------------------
// C11: accumulators

fn seq(v: Vec<Ex>) -> Ex {
    Ex::Seq(v)
}

pub fn acc_set() -> Vec<Program> {
    let mut v = Vec::new();
    // pushes before calls: order is fully determined (own values first, then callees)
    v.push(Program {
        name: "acc-pre".into(),
        cells: vec![(0, Dur::Low), (1, Dur::Low)],
        nodes: vec![
            NodeDef::new(Kind::Ev, seq(vec![Ex::Push(1), Ex::ifc(0, Ex::Push(2), k(0)), cell(1)])),
            NodeDef::new(Kind::Ev, seq(vec![Ex::Push(3), call(0)])),
            NodeDef::new(Kind::Ev, seq(vec![Ex::Push(4), Ex::add(call(0), call(1))])),
            NodeDef::new(Kind::Ev, seq(vec![Ex::ifc(1, Ex::Push(5), k(0)), Ex::add(call(2), call(0))])),
        ],
        ext: vec![0],
        root0: None,
    });
    // value-dependent accumulation, backdating leaf, never-change leaf, lru leaf
    v.push(Program {
        name: "acc-pre-mixed".into(),
        cells: vec![(0, Dur::Low), (1, Dur::Low)],
        nodes: vec![
            NodeDef::new(Kind::Lru, seq(vec![Ex::PushX(cell(0).b()), Ex::and(cell(0), k(0))])),
            NodeDef::new(Kind::Ev, seq(vec![Ex::Push(7), k(7)])).dur(Dur::Never),
            NodeDef::new(Kind::Ev, seq(vec![Ex::Push(3), Ex::ifc(1, Ex::Push(9), k(0)), Ex::add(call(0), call(1))])),
            NodeDef::new(Kind::Ev, seq(vec![Ex::ifc(1, Ex::Push(5), k(0)), Ex::add(call(2), call(1))])),
        ],
        ext: vec![0],
        root0: None,
    });
    // creators that push and also specify a value (an output edge), one of them never-change
    v.push(Program {
        name: "acc-pre-outputs".into(),
        cells: vec![(0, Dur::Low), (1, Dur::Low)],
        nodes: vec![
            NodeDef::new(
                Kind::Mk,
                Ex::Mk(vec![ent_post(k(1), k(1), seq(vec![Ex::Push(7), k(1)]), k(5), vec![Post::Spec { cond: k(1), val: k(3) }])]),
            )
            .dur(Dur::Never),
            NodeDef::new(
                Kind::Mk,
                Ex::Mk(vec![ent_post(k(1), k(2), seq(vec![Ex::Push(8), cell(0)]), k(5), vec![Post::Spec { cond: k(1), val: k(4) }])]),
            ),
            NodeDef::new(Kind::Ev, seq(vec![Ex::Push(3), Ex::add(Ex::Len(0), Ex::Len(1))])),
            NodeDef::new(Kind::Ev, seq(vec![Ex::ifc(1, Ex::Push(5), k(0)), call(2)])),
        ],
        ext: vec![0],
        root0: None,
    });
    // durabilities: an accumulating function that reads only a HIGH input next to a sibling that
    // reads a LOW input and backdates; their caller is deep-verified after a LOW write
    v.push(Program {
        name: "acc-pre-durability".into(),
        cells: vec![(0, Dur::Low), (1, Dur::High)],
        nodes: vec![
            NodeDef::new(Kind::Ev, seq(vec![Ex::Push(7), cell(1)])).dur(Dur::High),
            NodeDef::new(Kind::Ev, Ex::and(cell(0), k(0))).dur(Dur::High),
            NodeDef::new(Kind::Ev, seq(vec![call(1), call(0)])).dur(Dur::High),
            NodeDef::new(Kind::Ev, seq(vec![Ex::ifc(0, Ex::Push(5), k(0)), call(2)])).dur(Dur::High),
        ],
        ext: vec![0],
        root0: None,
    });
    // pushes after calls: only the multiset is compared
    v.push(Program {
        name: "acc-post".into(),
        cells: vec![(0, Dur::Low), (1, Dur::Low)],
        nodes: vec![
            NodeDef::new(Kind::Ev, seq(vec![cell(1), Ex::ifc(0, Ex::Push(2), k(0)), Ex::Push(1)])),
            NodeDef::new(Kind::Ev, seq(vec![call(0), Ex::Push(3)])),
            NodeDef::new(Kind::Ev, seq(vec![call(1), Ex::Push(4), Ex::iff(call(0), Ex::Push(9), k(0)), Ex::ifc(1, Ex::Push(6), k(0))])),
        ],
        ext: vec![0],
        root0: None,
    });
    v
}

pub fn acc_alphabet(p: &Program) -> Vec<Op> {
    let mut a = vec![Op::Set(0, 0), Op::Set(0, 1), Op::Set(1, 0), Op::Set(1, 1), Op::Syn(Dur::Low)];
    let n = p.nodes.len() as u8;
    for i in 0..n {
        a.push(Op::Acc(i));
    }
    a.push(Op::Q(n - 1));
    a.push(Op::Q(0));
    a
}

// ------------------------------------------------------------------------------------------------
// C14: cycles through functions without recovery

pub fn plain_cycle_set() -> Vec<Program> {
    let mut v = Vec::new();
    let unrelated = || NodeDef::new(Kind::Ev, Ex::add(cell(1), k(1)));
    v.push(Program {
        name: "pc-pure".into(),
        cells: vec![(1, Dur::Low), (0, Dur::Low)],
        nodes: vec![
            NodeDef::new(Kind::Ev, Ex::or(call(1), k(1))),
            NodeDef::new(Kind::Ev, Ex::ifc(0, Ex::or(call(0), k(2)), k(4))),
            unrelated(),
        ],
        ext: vec![0],
        root0: None,
    });
    v.push(Program {
        name: "pc-mixed".into(),
        cells: vec![(1, Dur::Low), (0, Dur::Low)],
        nodes: vec![
            NodeDef::new(Kind::Fx, Ex::or(call(1), k(1))),
            NodeDef::new(Kind::Ev, Ex::ifc(0, Ex::or(call(0), k(2)), k(4))),
            unrelated(),
        ],
        ext: vec![0],
        root0: None,
    });
    v.push(Program {
        name: "pc-self".into(),
        cells: vec![(1, Dur::Low), (0, Dur::Low)],
        nodes: vec![
            NodeDef::new(Kind::Ev, Ex::ifc(0, Ex::or(call(0), k(1)), k(3))),
            NodeDef::new(Kind::Ev, Ex::or(call(0), k(2))),
            unrelated(),
        ],
        ext: vec![0],
        root0: None,
    });
    v.push(Program {
        name: "pc-three-mixed".into(),
        cells: vec![(1, Dur::Low), (0, Dur::Low)],
        nodes: vec![
            NodeDef::new(Kind::Fx, Ex::or(call(1), k(1))),
            NodeDef::new(Kind::Ev, Ex::or(call(2), k(2))),
            NodeDef::new(Kind::Fx, Ex::ifc(0, Ex::or(call(0), k(4)), k(4))),
            unrelated(),
        ],
        ext: vec![0],
        root0: None,
    });
    v
}

pub fn plain_cycle_alphabet(p: &Program) -> Vec<Op> {
    let mut a = vec![Op::Set(0, 0), Op::Set(0, 1), Op::Set(1, 0), Op::Set(1, 1)];
    for n in 0..p.nodes.len() as u8 {
        a.push(Op::Q(n));
    }
    a
}

// ------------------------------------------------------------------------------------------------
// C08 (sequential part): the same values interned from several queries and from the top level

pub fn intern_canon_prog(ty: u8) -> Program {
    Program {
        name: format!("canon-ty{ty}"),
        cells: vec![(0, Dur::Low), (1, Dur::Low)],
        nodes: vec![
            NodeDef::new(Kind::Ev, Ex::IntFn(ty, cell(0).b())),
            NodeDef::new(Kind::Ev, Ex::Int(ty, cell(0).b())),
            NodeDef::new(Kind::Ev, Ex::add(Ex::Int(ty, cell(1).b()), call(0))),
        ],
        ext: vec![0],
        root0: None,
    }
}

pub fn intern_canon_alphabet(p: &Program) -> Vec<Op> {
    let ty: u8 = p.name.trim_start_matches("canon-ty").parse().unwrap_or(1);
    vec![Op::Set(0, 0), Op::Set(0, 1), Op::Set(1, 1), Op::Syn(Dur::Low), Op::Q(0), Op::Q(1), Op::Q(2), Op::QInt(ty, 0), Op::QInt(ty, 1)]
}

// ------------------------------------------------------------------------------------------------
// C03: programs whose results change durability without changing value

pub fn durq_set() -> Vec<Program> {
    let mut v = Vec::new();
    for (name, q) in [
        // reads the LOW cell only while the HIGH cell says so; value is 0 either way
        ("durq-and", Ex::ifc(0, Ex::and(cell(1), k(0)), k(0))),
        // same shape, value depends on the HIGH cell only
        ("durq-sel", Ex::ifc(0, Ex::add(Ex::and(cell(1), k(0)), k(1)), k(1))),
    ] {
        v.push(Program {
            name: name.into(),
            cells: vec![(0, Dur::High), (0, Dur::Low)],
            nodes: vec![
                NodeDef::new(Kind::Ev, q).dur(Dur::High),
                NodeDef::new(Kind::Ev, Ex::add(call(0), k(1))).dur(Dur::High),
                NodeDef::new(Kind::Ev, Ex::add(call(1), call(0))).dur(Dur::High),
            ],
            ext: vec![0],
            root0: None,
        });
    }
    v
}

// ------------------------------------------------------------------------------------------------
// C26: persistable programs

pub fn persist_set() -> Vec<Program> {
    let mut v = vec![
        p3(1, 0, 1),
        p3(5, 3, 2),
        p3(5, 5, 3),
        p3(4, 6, 6),
        p3(4, 2, 7),
        p3(3, 7, 1),
        p3(1, 2, 4),
        p3(2, 0, 5),
        p3(1, 1, 8),
    ];
    // a non-persisted function (the lru function) between two persisted ones: its dependencies
    // must be flattened into the persisted caller
    v.push(Program {
        name: "persist-through-nonpersisted".into(),
        cells: vec![(0, Dur::Low), (1, Dur::Low)],
        nodes: vec![
            NodeDef::new(Kind::Ev, Ex::add(cell(0), k(1))),
            NodeDef::new(Kind::Lru, Ex::add(call(0), cell(1))),
            NodeDef::new(Kind::Ev, Ex::add(call(1), k(2))),
        ],
        ext: vec![0],
        root0: None,
    });
    // inputs and code of MEDIUM / HIGH durability: the per-durability "last changed" revisions
    // must survive the round trip
    v.push(with_durs(p3(1, 0, 1), Dur::High, Dur::Medium, Dur::High));
    v.push(with_durs(p3(5, 3, 2), Dur::Medium, Dur::High, Dur::Medium));
    // two memos of the persisted function reach one shared non-persisted function (which alone
    // reads cell 1) through different non-persisted intermediates
    v.push(Program {
        name: "persist-shared-nonpersisted".into(),
        cells: vec![(0, Dur::Low), (1, Dur::Low)],
        nodes: vec![
            NodeDef::new(Kind::Lru, cell(1)),
            NodeDef::new(Kind::Lru, Ex::add(call(0), k(1))),
            NodeDef::new(Kind::Lru, Ex::add(call(0), k(2))),
            NodeDef::new(Kind::Ev, Ex::add(call(1), cell(0))),
            NodeDef::new(Kind::Ev, Ex::add(call(2), k(4))),
        ],
        ext: vec![0],
        root0: None,
    });
    v
}

pub fn persist_alphabet(p: &Program) -> Vec<Op> {
    let mut a = base_alphabet(p);
    a.push(Op::RoundTrip);
    a
}

/// C16: two creators whose structs are read back by two readers, and a third creator used by a
/// short-lived handle before the readers start.
pub fn readers_creating_structs() -> Program {
    Program {
        name: "readers-creating-structs".into(),
        cells: vec![(1, Dur::Low), (2, Dur::Low)],
        nodes: vec![
            NodeDef::new(Kind::Mk, Ex::Mk(vec![ent(k(1), cell(0), cell(1), k(5), 0)])),
            NodeDef::new(Kind::Ev, Ex::add(Ex::Fld(0, 0, 1), Ex::Fld(0, 0, 2))),
            NodeDef::new(Kind::Mk, Ex::Mk(vec![ent(k(1), k(7), k(3), cell(0), 0)])),
            NodeDef::new(Kind::Ev, Ex::add(Ex::Fld(2, 0, 1), Ex::Fld(2, 0, 2))),
            NodeDef::new(Kind::Mk, Ex::Mk(vec![ent(k(1), k(9), k(9), k(9), 0)])),
        ],
        ext: vec![0],
        root0: None,
    }
}

/// C19: the real program for a call graph of the protocol model (`pexplore::systems`): every
/// query is a fixpoint function that joins the results of its callees with one bit of its own.
pub fn model_graph(name: &str, calls: &[Vec<u8>]) -> Program {
    let nodes = calls
        .iter()
        .enumerate()
        .map(|(q, cs)| {
            let mut e = k(1 << (q % 3));
            for c in cs.iter().rev() {
                e = Ex::or(call(*c), e);
            }
            NodeDef::new(Kind::Fx, e)
        })
        .collect();
    Program { name: format!("mg-{name}"), cells: vec![(0, Dur::Low), (0, Dur::Low)], nodes, ext: vec![0], root0: None }
}

/// C20: a fixpoint head that calls its partner only while a LOW flag is set; the partner's own
/// inputs are HIGH, so a provisional memo of it abandoned by a cancellation passes shallow
/// verification in the next revision.
pub fn flag_cycle() -> Program {
    Program {
        name: "flagcyc-Fx".into(),
        cells: vec![(1, Dur::Low), (2, Dur::High)],
        nodes: vec![
            NodeDef::new(Kind::Fx, Ex::ifc(0, Ex::or(call(1), k(1)), k(4))),
            NodeDef::new(Kind::Fx, Ex::or(call(0), cell(1))).dur(Dur::High),
        ],
        ext: vec![0],
        root0: None,
    }
}

/// C18: a monotone cycle whose head calls its partner only in the first iteration (the call
/// depends on the head's own provisional value): the partner's memo from that iteration must
/// not survive as a final result.
pub fn vdep_cycle(kind: Kind) -> Program {
    Program {
        name: format!("vdepcyc-{kind:?}"),
        cells: vec![(1, Dur::Low), (0, Dur::Low)],
        nodes: vec![
            NodeDef::new(kind, Ex::iff(Ex::and(call(0), k(4)), k(7), Ex::or(call(1), k(4)))),
            NodeDef::new(kind, Ex::or(call(0), k(2))),
        ],
        ext: vec![0],
        root0: None,
    }
}

/// C12: monotone cycles in which a member reads an input lazily, only once its own provisional
/// value says so (value-dependent but monotone: more bits in, more bits out).
pub fn lazy_input_cycles(kind: Kind) -> Vec<Program> {
    let lazy = |own: u8| Ex::iff(Ex::and(call(own), k(1)), cell(1), k(0));
    let mut v = Vec::new();
    v.push(Program {
        name: format!("lazycyc-a-{kind:?}"),
        cells: vec![(1, Dur::Low), (2, Dur::Low)],
        nodes: vec![
            NodeDef::new(kind, Ex::or(Ex::or(call(1), k(1)), lazy(0))).alt(Ex::or(call(1), k(1))),
            NodeDef::new(kind, call(0)),
            NodeDef::new(Kind::Ev, Ex::add(call(0), call(1))),
        ],
        ext: vec![0],
        root0: None,
    });
    v.push(Program {
        name: format!("lazycyc-b-{kind:?}"),
        cells: vec![(1, Dur::Low), (2, Dur::Low)],
        nodes: vec![
            NodeDef::new(kind, Ex::or(call(1), k(1))).alt(Ex::or(call(1), cell(0))),
            NodeDef::new(kind, Ex::or(call(0), lazy(1))),
            NodeDef::new(kind, Ex::or(call(1), Ex::ifc(0, call(0), k(4)))),
        ],
        ext: vec![0],
        root0: None,
    });
    v
}
