//! C19 layer 2: explicit-state exploration of the protocol model (`pmodel::Dg`, bound to the code
//! by the conformance replay) closed by an environment that mirrors how salsa's functions use it:
//! threads evaluate queries of a static call graph through claim / wait / cycle detection /
//! lock transfer / release, iterate cycle heads once more, and may panic.

use std::collections::{BTreeMap, BTreeSet, HashSet, VecDeque};

use crate::pmodel::Dg;

type T = u8;
type Q = u8;

#[derive(Clone, Debug, PartialEq, Eq, Hash, PartialOrd, Ord)]
enum Owner {
    Thread(T),
    Transferred,
}

#[derive(Clone, Debug, PartialEq, Eq, Hash, PartialOrd, Ord)]
struct Sync {
    owner: Owner,
    anyone_waiting: bool,
    is_transfer_target: bool,
    claimed_twice: bool,
}

#[derive(Clone, Copy, Debug, PartialEq, Eq, Hash, PartialOrd, Ord)]
enum Mode {
    Default,
    SelfOnly,
}

#[derive(Clone, Debug, PartialEq, Eq, Hash, PartialOrd, Ord)]
struct Frame {
    q: Q,
    next: u8,
    heads: BTreeSet<Q>,
    mode: Mode,
    iteration: u8,
}

#[derive(Clone, Debug, PartialEq, Eq, Hash, PartialOrd, Ord)]
enum Status {
    Running,
    /// waiting for a wake-up; `retry` = query to fetch again afterwards (None: blocked as part of
    /// a lock transfer, continue with the caller)
    Blocked { retry: Option<Q> },
    Done,
    Panicked,
}

#[derive(Clone, Debug, PartialEq, Eq, Hash, PartialOrd, Ord)]
struct Thread {
    root: Q,
    started: bool,
    stack: Vec<Frame>,
    status: Status,
}

#[derive(Clone, Debug, PartialEq, Eq, Hash, PartialOrd, Ord)]
enum Memo {
    None,
    /// provisional value with its cycle heads
    Provisional(BTreeSet<Q>),
    /// left behind by a panicking execution (`PoisonProvisionalIfPanicking`): whoever reads it
    /// in this revision panics as well
    Poisoned,
    Final,
}

#[derive(Clone, Debug, PartialEq, Eq, Hash)]
pub struct State {
    dg: Dg<T, Q>,
    sync: BTreeMap<Q, Sync>,
    memo: Vec<Memo>,
    threads: Vec<Thread>,
    panics_left: u8,
    /// ghost: per thread (times blocked, times resumed)
    ghost: Vec<(u8, u8)>,
}

pub struct System {
    pub name: String,
    /// calls[q] = callees of q in order
    pub calls: Vec<Vec<Q>>,
    /// callees while the thread is inside the second iteration of a cycle head (value-dependent
    /// call structure: a later iteration may reach different heads)
    pub calls_alt: Option<Vec<Vec<Q>>>,
    pub roots: Vec<Q>,
    pub panics: u8,
}

#[derive(Default)]
pub struct ExploreOut {
    pub states: u64,
    pub transitions: u64,
    pub max_depth: u64,
    pub terminal_states: u64,
    pub states_with_blocked_thread: u64,
    pub states_with_transfer: u64,
    pub states_after_panic: u64,
    pub retransfers: u64,
    pub reentrant_claims: u64,
    pub failure: Option<(String, Vec<String>)>,
}

thread_local! {
    static RETRANSFERS: std::cell::Cell<u64> = const { std::cell::Cell::new(0) };
    static REENTRANT: std::cell::Cell<u64> = const { std::cell::Cell::new(0) };
}

impl System {
    fn callees(&self, s: &State, t: T, q: Q) -> &Vec<Q> {
        match &self.calls_alt {
            Some(alt) if s.threads[t as usize].stack.iter().any(|f| f.iteration >= 1) => &alt[q as usize],
            _ => &self.calls[q as usize],
        }
    }

    fn init(&self) -> State {
        State {
            dg: Dg::default(),
            sync: BTreeMap::new(),
            memo: vec![Memo::None; self.calls.len()],
            threads: self.roots.iter().map(|r| Thread { root: *r, started: false, stack: Vec::new(), status: Status::Running }).collect(),
            panics_left: self.panics,
            ghost: vec![(0, 0); self.roots.len()],
        }
    }

    /// `ClaimGuard::release` body
    fn release_inner(s: &mut State, q: Q, st: Sync, r: u8) -> Result<(), String> {
        if !st.anyone_waiting {
            return Ok(());
        }
        if st.claimed_twice {
            s.dg.undo_transfer(q);
        }
        s.dg.unblock_blocked_on(q, r)?;
        if st.is_transfer_target {
            s.dg.unblock_transferred_owned_by(q, r)?;
        }
        Ok(())
    }

    /// Fetch `c` on thread `t` (one claim attempt). Returns true if the thread keeps running.
    fn fetch(&self, s: &mut State, t: T, c: Q) -> Result<(), String> {
        if s.memo[c as usize] == Memo::Final {
            return Ok(());
        }
        let poisoned = s.memo[c as usize] == Memo::Poisoned;
        self.fetch_claim(s, t, c)?;
        if poisoned && s.threads[t as usize].status == Status::Running {
            // claimed it or hit a cycle on it: the poisoned memo propagates the panic
            self.unwind(s, t)?;
        }
        Ok(())
    }

    fn fetch_claim(&self, s: &mut State, t: T, c: Q) -> Result<(), String> {
        // try_claim(reentrant = allow)
        match s.sync.get(&c).cloned() {
            None => {
                s.sync.insert(c, Sync { owner: Owner::Thread(t), anyone_waiting: false, is_transfer_target: false, claimed_twice: false });
                s.threads[t as usize].stack.push(Frame { q: c, next: 0, heads: BTreeSet::new(), mode: Mode::Default, iteration: 0 });
            }
            Some(Sync { owner: Owner::Thread(u), .. }) => {
                // (`try_claim` sets the flag before it looks for a cycle)
                s.sync.get_mut(&c).unwrap().anyone_waiting = true;
                if u == t || s.dg.depends_on(&u, &t) {
                    // cycle: `c` becomes a cycle head of the running frame (`fetch_cold_cycle`:
                    // initial provisional value whose only head is `c` itself)
                    if s.memo[c as usize] != Memo::Poisoned {
                        s.memo[c as usize] = Memo::Provisional([c].into_iter().collect());
                    }
                    if let Some(f) = s.threads[t as usize].stack.last_mut() {
                        f.heads.insert(c);
                    }
                } else {
                    s.dg.add_edge(t, c, u)?;
                    s.threads[t as usize].status = Status::Blocked { retry: Some(c) };
                    s.ghost[t as usize].0 += 1;
                }
            }
            Some(Sync { owner: Owner::Transferred, .. }) => match s.dg.thread_of_transferred(c, None) {
                None => {
                    // stale transfer: the owner released it
                    s.sync.insert(c, Sync { owner: Owner::Thread(t), anyone_waiting: false, is_transfer_target: false, claimed_twice: false });
                    s.threads[t as usize].stack.push(Frame { q: c, next: 0, heads: BTreeSet::new(), mode: Mode::Default, iteration: 0 });
                }
                Some(o) => {
                    if o == t || s.dg.depends_on(&o, &t) {
                        let e = s.sync.get_mut(&c).unwrap();
                        if e.claimed_twice {
                            return Err(format!("try_claim_transferred: {c} claimed twice already"));
                        }
                        e.owner = Owner::Thread(t);
                        e.claimed_twice = true;
                        REENTRANT.with(|c| c.set(c.get() + 1));
                        s.threads[t as usize].stack.push(Frame { q: c, next: 0, heads: BTreeSet::new(), mode: Mode::SelfOnly, iteration: 0 });
                    } else {
                        s.sync.get_mut(&c).unwrap().anyone_waiting = true;
                        s.dg.add_edge(t, c, o)?;
                        s.threads[t as usize].status = Status::Blocked { retry: Some(c) };
                        s.ghost[t as usize].0 += 1;
                    }
                }
            },
        }
        Ok(())
    }

    /// `peek_claim(h, Reentrancy::Deny)` is `Cycle { inner: false }`
    fn peek_is_outer(s: &mut State, t: T, h: Q) -> bool {
        match s.sync.get(&h).cloned() {
            None => false,
            Some(Sync { owner: Owner::Thread(u), .. }) => {
                s.sync.get_mut(&h).unwrap().anyone_waiting = true;
                u == t || s.dg.depends_on(&u, &t)
            }
            Some(Sync { owner: Owner::Transferred, .. }) => match s.dg.thread_of_transferred(h, None) {
                None => false,
                Some(o) => {
                    if o == t || s.dg.depends_on(&o, &t) {
                        false // ImTheOwner => Cycle { inner: true }
                    } else {
                        s.sync.get_mut(&h).unwrap().anyone_waiting = true;
                        false // Running
                    }
                }
            },
        }
    }

    /// The top frame of thread `t` has run all its callees.
    fn complete(&self, s: &mut State, t: T) -> Result<(), String> {
        let f = s.threads[t as usize].stack.last().cloned().expect("frame");
        let q = f.q;
        // `collect_all_cycle_heads`: heads of the provisional memos of the heads, transitively
        let mut heads: BTreeSet<Q> = f.heads.clone();
        let mut depends_on_self = heads.contains(&q);
        let mut todo: Vec<Q> = heads.iter().copied().collect();
        while let Some(h) = todo.pop() {
            if h == q {
                depends_on_self = true;
                continue;
            }
            match &s.memo[h as usize] {
                Memo::Provisional(hs) => {
                    for x in hs.clone() {
                        if heads.insert(x) {
                            todo.push(x);
                        }
                    }
                }
                Memo::Poisoned => {
                    // `Cancelled::PropagatedPanic.throw()`
                    return self.unwind(s, t);
                }
                other => return Err(format!("collect_all_cycle_heads: head {h} of {q} has memo {other:?}, expected a provisional one")),
            }
        }
        s.threads[t as usize].stack.pop();
        depends_on_self |= heads.contains(&q);
        if heads.is_empty() {
            s.memo[q as usize] = Memo::Final;
            return self.release_normal(s, q, f.mode);
        }
        // `outer_cycle`
        let on_stack = s.threads[t as usize].stack.iter().map(|fr| fr.q).find(|x| *x != q && heads.contains(x));
        let outer = match on_stack {
            Some(x) => Some(x),
            None => {
                let mut found = None;
                for h in heads.iter().rev().copied().filter(|h| *h != q).collect::<Vec<_>>() {
                    if Self::peek_is_outer(s, t, h) {
                        found = Some(h);
                        break;
                    }
                }
                found
            }
        };
        if !depends_on_self && outer.is_none() {
            return Err(format!("cycle participant {q} with heads {heads:?} has no outer cycle"));
        }
        match outer {
            None => {
                // outermost head
                if f.iteration == 0 {
                    s.memo[q as usize] = Memo::Provisional(heads.clone());
                    s.threads[t as usize].stack.push(Frame { q, next: 0, heads: BTreeSet::new(), mode: f.mode, iteration: 1 });
                    return Ok(());
                }
                // final: this query, its inner heads, and everything whose lock it holds
                s.memo[q as usize] = Memo::Final;
                for h in &heads {
                    s.memo[*h as usize] = Memo::Final;
                }
                let mut todo = vec![q];
                while let Some(x) = todo.pop() {
                    for d in s.dg.transferred_dependents.get(&x).cloned().unwrap_or_default() {
                        if s.memo[d as usize] != Memo::Final {
                            s.memo[d as usize] = Memo::Final;
                        }
                        todo.push(d);
                    }
                }
                self.release_normal(s, q, f.mode)
            }
            Some(target) => {
                // participant or nested head: provisional memo, the lock goes to the outer cycle
                s.memo[q as usize] = Memo::Provisional(heads.clone());
                if let Some(p) = s.threads[t as usize].stack.last_mut() {
                    p.heads.extend(heads.iter().copied().filter(|h| *h != q));
                    if depends_on_self {
                        // the caller read a provisional value of a head
                        p.heads.insert(q);
                    }
                }
                // mark_as_transfer_target
                let owner_id = match s.sync.get_mut(&target) {
                    Some(e) => {
                        e.anyone_waiting = true;
                        e.is_transfer_target = true;
                        e.owner.clone()
                    }
                    None => return Err(format!("transfer: new owner {target} is not a locked query")),
                };
                {
                    let e = s.sync.get_mut(&q).ok_or("transfer: key not claimed")?;
                    e.owner = Owner::Transferred;
                    e.claimed_twice = false;
                }
                let nt = match owner_id {
                    Owner::Thread(x) => x,
                    Owner::Transferred => s.dg.thread_of_transferred(target, Some(q)).ok_or_else(|| format!("transfer: new owner {target} should be blocked on {q}"))?,
                };
                if s.dg.transferred.get(&q).is_some_and(|(_, o)| *o != target) {
                    RETRANSFERS.with(|c| c.set(c.get() + 1));
                }
                if let Some(thread_changed) = s.dg.transfer_part1(q, &t, target, &nt)? {
                    if thread_changed {
                        s.dg.transfer_part2(q, &nt)?;
                        if t != nt && !s.dg.depends_on(&nt, &t) {
                            s.dg.add_edge(t, target, nt)?;
                            s.threads[t as usize].status = Status::Blocked { retry: None };
                            s.ghost[t as usize].0 += 1;
                        }
                    }
                }
                Ok(())
            }
        }
    }

    fn release_normal(&self, s: &mut State, q: Q, mode: Mode) -> Result<(), String> {
        match mode {
            Mode::Default => {
                let st = s.sync.remove(&q).ok_or("release: key not claimed")?;
                Self::release_inner(s, q, st, 0)
            }
            Mode::SelfOnly => {
                let e = s.sync.get_mut(&q).ok_or("release_self: key not claimed")?;
                if e.claimed_twice {
                    e.claimed_twice = false;
                    e.owner = Owner::Transferred;
                    Ok(())
                } else {
                    let st = s.sync.remove(&q).unwrap();
                    Self::release_inner(s, q, st, 0)
                }
            }
        }
    }

    /// Unwind thread `t` completely (panic).
    fn unwind(&self, s: &mut State, t: T) -> Result<(), String> {
        while let Some(f) = s.threads[t as usize].stack.pop() {
            if s.memo[f.q as usize] != Memo::Final {
                s.memo[f.q as usize] = Memo::Poisoned;
            }
            if let Some(st) = s.sync.remove(&f.q) {
                Self::release_inner(s, f.q, st, 1)?;
            }
        }
        s.threads[t as usize].status = Status::Panicked;
        Ok(())
    }

    /// All successor states of `s` with a label each.
    fn step(&self, s: &State) -> Result<Vec<(String, State)>, String> {
        let mut out = Vec::new();
        for t in 0..s.threads.len() as T {
            let th = &s.threads[t as usize];
            match &th.status {
                Status::Done | Status::Panicked => {}
                Status::Blocked { retry } => {
                    if let Some(r) = s.dg.wait_results.get(&t).copied() {
                        let mut n = s.clone();
                        n.dg.resume(&t)?;
                        n.ghost[t as usize].1 += 1;
                        n.threads[t as usize].status = Status::Running;
                        match (r, retry) {
                            (1, _) => self.unwind(&mut n, t)?,
                            (_, Some(c)) => self.fetch(&mut n, t, *c)?,
                            (_, None) => {}
                        }
                        out.push((format!("t{t}:resume({r})"), n));
                    }
                }
                Status::Running => {
                    if !th.started {
                        let mut n = s.clone();
                        n.threads[t as usize].started = true;
                        self.fetch(&mut n, t, th.root)?;
                        out.push((format!("t{t}:request({})", th.root), n));
                        continue;
                    }
                    match th.stack.last() {
                        None => {
                            // the root request returned: if its result is not final yet (provisional,
                            // the cycle is still running elsewhere) fetch again, else done
                            let mut n = s.clone();
                            if n.memo[th.root as usize] == Memo::Final {
                                n.threads[t as usize].status = Status::Done;
                                out.push((format!("t{t}:done"), n));
                            } else {
                                self.fetch(&mut n, t, th.root)?;
                                out.push((format!("t{t}:refetch({})", th.root), n));
                            }
                        }
                        Some(f) => {
                            let callees = self.callees(s, t, f.q);
                            if (f.next as usize) < callees.len() {
                                let c = callees[f.next as usize];
                                let mut n = s.clone();
                                n.threads[t as usize].stack.last_mut().unwrap().next += 1;
                                self.fetch(&mut n, t, c)?;
                                out.push((format!("t{t}:{}→{c}", f.q), n));
                                if s.panics_left > 0 {
                                    let mut n = s.clone();
                                    n.panics_left -= 1;
                                    self.unwind(&mut n, t)?;
                                    out.push((format!("t{t}:panic-in-{}", f.q), n));
                                }
                            } else {
                                let mut n = s.clone();
                                let q = f.q;
                                self.complete(&mut n, t)?;
                                out.push((format!("t{t}:complete({q})"), n));
                            }
                        }
                    }
                }
            }
        }
        Ok(out)
    }

    fn invariants(&self, s: &State) -> Result<(), String> {
        // I1: wait graph acyclic
        for start in s.dg.edges.keys() {
            let mut cur = *start;
            let mut steps = 0;
            while let Some(n) = s.dg.edges.get(&cur) {
                cur = *n;
                steps += 1;
                if cur == *start || steps > s.threads.len() + 1 {
                    return Err(format!("wait graph cycle: {:?}", s.dg.edges));
                }
            }
        }
        // I2: transfer forest + inverse
        for q in s.dg.transferred.keys() {
            let mut cur = *q;
            let mut steps = 0;
            while let Some((_, o)) = s.dg.transferred.get(&cur) {
                cur = *o;
                steps += 1;
                if cur == *q || steps > s.memo.len() + 1 {
                    return Err(format!("transfer cycle: {:?}", s.dg.transferred));
                }
            }
        }
        let mut inv: BTreeMap<Q, BTreeSet<Q>> = BTreeMap::new();
        for (q, (_, o)) in &s.dg.transferred {
            inv.entry(*o).or_default().insert(*q);
        }
        let have: BTreeMap<Q, BTreeSet<Q>> =
            s.dg.transferred_dependents.iter().filter(|(_, v)| !v.is_empty()).map(|(k, v)| (*k, v.iter().copied().collect())).collect();
        if inv != have {
            return Err(format!("transferred_dependents {:?} is not the inverse of transferred {:?}", s.dg.transferred_dependents, s.dg.transferred));
        }
        // I3: blocked threads <-> edges <-> dependents lists; woken threads have a result
        for (t, th) in s.threads.iter().enumerate() {
            let t = t as T;
            let blocked = matches!(th.status, Status::Blocked { .. });
            let has_edge = s.dg.edges.contains_key(&t);
            let has_result = s.dg.wait_results.contains_key(&t);
            if blocked != (has_edge || has_result) || (has_edge && has_result) {
                return Err(format!("thread {t}: status {:?}, edge {has_edge}, pending result {has_result}", th.status));
            }
            let n_lists = s.dg.query_dependents.values().filter(|v| v.contains(&t)).count();
            if has_edge != (n_lists == 1) || n_lists > 1 {
                return Err(format!("thread {t} appears in {n_lists} dependents lists, edge {has_edge}"));
            }
            // I4: exactly-once resume (ghost)
            let (b, r) = s.ghost[t as usize];
            if r > b || b > r + 1 || (blocked != (b == r + 1)) {
                return Err(format!("thread {t}: blocked {b} times, resumed {r} times, status {:?}", th.status));
            }
        }
        Ok(())
    }

    pub fn explore(&self, max_states: u64) -> ExploreOut {
        let mut out = ExploreOut::default();
        let init = self.init();
        let mut seen: HashSet<State> = HashSet::new();
        // parent pointers for counterexample reconstruction
        let mut parent: Vec<(usize, String)> = Vec::new();
        let mut states: Vec<State> = Vec::new();
        let mut queue: VecDeque<(usize, u64)> = VecDeque::new();
        seen.insert(init.clone());
        states.push(init);
        parent.push((usize::MAX, "init".into()));
        queue.push_back((0, 0));
        let trace_of = |parent: &Vec<(usize, String)>, mut i: usize| {
            let mut v = Vec::new();
            while i != usize::MAX {
                v.push(parent[i].1.clone());
                i = parent[i].0;
            }
            v.reverse();
            v
        };
        while let Some((i, depth)) = queue.pop_front() {
            let s = states[i].clone();
            out.max_depth = out.max_depth.max(depth);
            if s.threads.iter().any(|t| matches!(t.status, Status::Blocked { .. })) {
                out.states_with_blocked_thread += 1;
            }
            if !s.dg.transferred.is_empty() {
                out.states_with_transfer += 1;
            }
            if s.threads.iter().any(|t| t.status == Status::Panicked) {
                out.states_after_panic += 1;
            }
            if let Err(e) = self.invariants(&s) {
                out.failure = Some((format!("invariant violated: {e}"), trace_of(&parent, i)));
                break;
            }
            let succ = match self.step(&s) {
                Ok(v) => v,
                Err(e) => {
                    out.failure = Some((format!("operation precondition violated: {e}"), trace_of(&parent, i)));
                    break;
                }
            };
            if succ.is_empty() {
                out.terminal_states += 1;
                // I7: no enabled thread => every thread finished and nothing is left locked or waiting
                let all_done = s.threads.iter().all(|t| matches!(t.status, Status::Done | Status::Panicked));
                if !all_done {
                    out.failure = Some((format!("deadlock: no thread can move, statuses {:?}, edges {:?}", s.threads.iter().map(|t| t.status.clone()).collect::<Vec<_>>(), s.dg.edges), trace_of(&parent, i)));
                    break;
                }
                if !s.dg.edges.is_empty() || !s.dg.wait_results.is_empty() || !s.dg.query_dependents.values().all(|v| v.is_empty()) {
                    out.failure = Some(("all threads finished but the dependency graph is not empty".into(), trace_of(&parent, i)));
                    break;
                }
            }
            for (label, n) in succ {
                out.transitions += 1;
                if seen.insert(n.clone()) {
                    states.push(n);
                    parent.push((i, label));
                    queue.push_back((states.len() - 1, depth + 1));
                }
            }
            if states.len() as u64 > max_states {
                break;
            }
        }
        out.states = states.len() as u64;
        out.retransfers = RETRANSFERS.with(|c| c.replace(0));
        out.reentrant_claims = REENTRANT.with(|c| c.replace(0));
        out
    }
}

/// The systems explored: call graphs x entry assignments x panic budget.
pub fn systems(quick: bool) -> Vec<System> {
    let mut v = Vec::new();
    type G = Vec<Vec<Q>>;
    let mut graphs: Vec<(&str, G, Option<G>)> = vec![
        ("dag-shared", vec![vec![2], vec![2], vec![]], None),
        ("two-cycle", vec![vec![1], vec![0]], None),
        ("three-cycle", vec![vec![1], vec![2], vec![0]], None),
        ("nested", vec![vec![1], vec![0, 2], vec![1]], None),
        ("self-and-pair", vec![vec![0, 1], vec![0]], None),
        ("head-with-tail", vec![vec![1, 2], vec![0], vec![]], None),
        ("two-heads", vec![vec![1], vec![2, 0], vec![1, 0]], None),
        // the second iteration takes other paths: other outer heads than in the first
        ("nested-alt", vec![vec![1], vec![0, 2], vec![1]], Some(vec![vec![1], vec![2, 0], vec![1, 0]])),
        ("three-cycle-alt", vec![vec![1], vec![2], vec![0]], Some(vec![vec![2], vec![0], vec![1]])),
        ("two-heads-alt", vec![vec![1], vec![2, 0], vec![1, 0]], Some(vec![vec![2, 1], vec![0], vec![0, 1]])),
    ];
    if !quick {
        graphs.push(("four-ring", vec![vec![1], vec![2], vec![3], vec![0]], None));
        graphs.push(("four-nested", vec![vec![1], vec![2, 0], vec![3, 1], vec![2]], None));
        graphs.push(("four-nested-alt", vec![vec![1], vec![2, 0], vec![3, 1], vec![2]], Some(vec![vec![3, 1], vec![0], vec![1], vec![2, 0]])));
        graphs.push(("four-diamond", vec![vec![1, 2], vec![3], vec![3], vec![0]], None));
    }
    for (name, calls, alt) in graphs {
        let nq = calls.len() as Q;
        let mut entries: Vec<Vec<Q>> = Vec::new();
        for a in 0..nq {
            for b in a..nq {
                entries.push(vec![a, b]);
            }
        }
        for a in 0..nq {
            for b in a..nq {
                for c in b..nq {
                    if quick && !(a < b && b < c) && nq > 2 {
                        continue;
                    }
                    entries.push(vec![a, b, c]);
                }
            }
        }
        for roots in entries {
            let max_panics = if quick { if roots.len() > 2 { 0 } else { 1 } } else { 2 };
            for panics in 0..=max_panics {
                v.push(System { name: format!("{name}:roots{roots:?}:panics{panics}"), calls: calls.clone(), calls_alt: alt.clone(), roots: roots.clone(), panics });
            }
        }
    }
    v
}

// ------------------------------------------------------------------------------------------------
// worker / replay glue

use crate::e1::WorkerOut;
use crate::evid::Viol;
use serde_json::json;

fn viol_of(sys: &System, what: &str, trace: &[String]) -> Viol {
    let class = what.split(':').next().unwrap_or("failure").replace(' ', "-");
    Viol {
        property: "C19".into(),
        signature: format!("C19:protocol-model:{class}:{}", sys.name),
        what: format!("protocol model, system {}: {what}; trace: {}", sys.name, trace.join(" ; ")),
        case: json!({"engine": "pmodel", "config": "conc", "system": sys.name, "trace": trace}),
    }
}

pub fn run_worker(tier: &str, w: usize, n: usize, out: &mut WorkerOut) {
    let quick = tier == "quick";
    let cap: u64 = if quick { 3_000_000 } else { 60_000_000 };
    for (i, sys) in systems(quick).iter().enumerate() {
        if i % n != w {
            continue;
        }
        let r = sys.explore(cap);
        out.stats.bump("model_systems_explored", 1);
        out.stats.bump("model_states", r.states);
        out.stats.bump("model_transitions", r.transitions);
        out.stats.bump("model_terminal_states", r.terminal_states);
        out.stats.bump("model_states_with_blocked_thread", r.states_with_blocked_thread);
        out.stats.bump("model_states_with_transferred_lock", r.states_with_transfer);
        out.stats.bump("model_states_after_panic", r.states_after_panic);
        out.stats.bump("model_transfers_replacing_an_earlier_transfer", r.retransfers);
        out.stats.bump("model_reentrant_claims_of_transferred_queries", r.reentrant_claims);
        let e = out.stats.maxima.entry("model_bfs_depth".into()).or_insert(0);
        *e = (*e).max(r.max_depth);
        let e = out.stats.maxima.entry("model_states_in_largest_system".into()).or_insert(0);
        *e = (*e).max(r.states);
        if r.states > cap {
            out.stats.cap_hit = true;
            out.stats.bump("model_systems_capped", 1);
        }
        if let Some((what, trace)) = r.failure {
            out.viols.push(viol_of(sys, &what, &trace));
        }
    }
}

/// Re-explore the system named in a replay file. Some(Some(msg)) = fails again.
pub fn replay(case: &serde_json::Value) -> Option<Option<String>> {
    let name = case.get("system")?.as_str()?;
    let sys = systems(false).into_iter().find(|s| s.name == name)?;
    let r = sys.explore(60_000_000);
    Some(r.failure.map(|(what, trace)| format!("{what}; trace: {}", trace.join(" ; "))))
}
