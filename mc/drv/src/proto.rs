//! C19 layer 1: monitors on the real claim / wait / transfer protocol, evaluated on the trace
//! that hook H2 delivers for every explored schedule.

use std::collections::{BTreeMap, BTreeSet};
use std::sync::Mutex;

use salsa::verif::protocol::{Dump, Key, Op};

pub static TRACE: Mutex<Vec<(Op, Dump)>> = Mutex::new(Vec::new());

pub fn install_sink() {
    salsa::verif::protocol::set_sink(Box::new(|op, dump| {
        TRACE.lock().unwrap_or_else(|e| e.into_inner()).push((op.clone(), dump.clone()));
    }));
}

pub fn take_trace() -> Vec<(Op, Dump)> {
    std::mem::take(&mut *TRACE.lock().unwrap_or_else(|e| e.into_inner()))
}

#[derive(Default)]
pub struct ProtoStats {
    pub events: u64,
    pub blocks: u64,
    pub transfers: u64,
    pub transfers_changing_thread: u64,
    pub releases_with_waiters: u64,
    pub resumed_completed: u64,
    pub resumed_panicked: u64,
    pub resumed_cancelled: u64,
    pub max_blocked_threads: u64,
}

fn acyclic_edges(d: &Dump) -> Result<(), String> {
    let m: BTreeMap<&str, &str> = d.edges.iter().map(|(a, b)| (a.as_str(), b.as_str())).collect();
    for start in m.keys() {
        let mut cur = *start;
        let mut steps = 0;
        while let Some(n) = m.get(cur) {
            cur = n;
            steps += 1;
            if cur == *start || steps > m.len() + 1 {
                return Err(format!("the wait graph has a cycle through {start}: {:?}", d.edges));
            }
        }
    }
    Ok(())
}

fn forest(d: &Dump) -> Result<(), String> {
    let t: BTreeMap<Key, Key> = d.transferred.iter().map(|(q, (_, o))| (*q, *o)).collect();
    for q in t.keys() {
        let mut cur = *q;
        let mut steps = 0;
        while let Some(o) = t.get(&cur) {
            cur = *o;
            steps += 1;
            if cur == *q || steps > t.len() + 1 {
                return Err(format!("the transfer relation has a cycle through {q:?}: {:?}", d.transferred));
            }
        }
    }
    // transferred_dependents is the exact inverse
    let mut inv: BTreeMap<Key, BTreeSet<Key>> = BTreeMap::new();
    for (q, o) in &t {
        inv.entry(*o).or_default().insert(*q);
    }
    let have: BTreeMap<Key, BTreeSet<Key>> =
        d.transferred_dependents.iter().filter(|(_, v)| !v.is_empty()).map(|(k, v)| (*k, v.iter().copied().collect())).collect();
    if inv != have {
        return Err(format!("transferred_dependents {:?} is not the inverse of transferred {:?}", d.transferred_dependents, d.transferred));
    }
    Ok(())
}

fn blocked_sets(d: &Dump) -> Result<(), String> {
    let in_edges: BTreeSet<&str> = d.edges.iter().map(|(a, _)| a.as_str()).collect();
    let mut in_deps: Vec<&str> = d.query_dependents.iter().flat_map(|(_, v)| v.iter().map(|s| s.as_str())).collect();
    in_deps.sort();
    let uniq: BTreeSet<&str> = in_deps.iter().copied().collect();
    if uniq.len() != in_deps.len() {
        return Err(format!("a thread waits on two queries: {:?}", d.query_dependents));
    }
    if uniq != in_edges {
        return Err(format!("blocked threads in edges {:?} differ from those registered as dependents {:?}", d.edges, d.query_dependents));
    }
    for (t, _) in &d.wait_results {
        if in_edges.contains(t.as_str()) {
            return Err(format!("thread {t} has a pending wait result while still blocked"));
        }
    }
    Ok(())
}

/// Thread that currently owns `q` according to the transfer chain / the claim table.
fn owner_thread(d: &Dump, claimed: &BTreeMap<Key, String>, q: Key) -> Option<String> {
    let t: BTreeMap<Key, (String, Key)> = d.transferred.iter().cloned().collect();
    if let Some((th, o)) = t.get(&q) {
        let mut resolved = th.clone();
        let mut cur = *o;
        let mut steps = 0;
        while let Some((nt, nk)) = t.get(&cur) {
            resolved = nt.clone();
            cur = *nk;
            steps += 1;
            if steps > t.len() + 1 {
                return None;
            }
        }
        return Some(resolved);
    }
    claimed.get(&q).cloned()
}

/// Check one execution's trace. Returns the first violated invariant.
pub fn check_trace(trace: &[(Op, Dump)], st: &mut ProtoStats) -> Result<(), String> {
    // per thread: 0 = running, 1 = blocked (awaiting unblock), 2 = unblocked with result (awaiting resume)
    let mut phase: BTreeMap<String, (u8, u8)> = BTreeMap::new();
    let mut claimed: BTreeMap<Key, String> = BTreeMap::new();
    // result the current release context delivers (None = no release in progress)
    let mut ctx: Option<u8> = None;
    for (i, (op, d)) in trace.iter().enumerate() {
        st.events += 1;
        let at = |m: String| format!("event #{i} {op:?}: {m}");
        match op {
            Op::Claim { thread, query, how } => {
                if *how == "vacant" {
                    if let Some(o) = claimed.get(query) {
                        return Err(at(format!("query claimed by {thread} while {o} still holds it")));
                    }
                }
                claimed.insert(*query, thread.clone());
                ctx = None;
                continue;
            }
            Op::Release { query, result, anyone_waiting, .. } => {
                claimed.remove(query);
                ctx = Some(*result);
                if *anyone_waiting {
                    st.releases_with_waiters += 1;
                }
                continue;
            }
            _ => {}
        }
        acyclic_edges(d).map_err(&at)?;
        st.max_blocked_threads = st.max_blocked_threads.max(d.edges.len() as u64);
        match op {
            Op::Blocked { thread, on_thread, .. } => {
                st.blocks += 1;
                let e = phase.entry(thread.clone()).or_insert((0, 0));
                if e.0 != 0 {
                    return Err(at(format!("{thread} blocks again before it resumed from its previous wait")));
                }
                e.0 = 1;
                if thread == on_thread {
                    return Err(at("a thread waits on itself".into()));
                }
                ctx = None;
            }
            Op::Unblocked { thread, result } => {
                let e = phase.entry(thread.clone()).or_insert((0, 0));
                if e.0 != 1 {
                    return Err(at(format!("{thread} is woken although it is not waiting (woken twice?)")));
                }
                *e = (2, *result);
                match ctx {
                    Some(r) if r != *result => {
                        return Err(at(format!("{thread} is woken with result {result} but the computation it waited for ended with {r}")));
                    }
                    _ => {}
                }
            }
            Op::Resumed { thread, result } => {
                let e = phase.entry(thread.clone()).or_insert((0, 0));
                if e.0 != 2 {
                    return Err(at(format!("{thread} resumes without having been woken exactly once")));
                }
                if e.1 != *result {
                    return Err(at(format!("{thread} resumes with result {result}, was woken with {}", e.1)));
                }
                *e = (0, 0);
                match result {
                    0 => st.resumed_completed += 1,
                    1 => st.resumed_panicked += 1,
                    _ => st.resumed_cancelled += 1,
                }
                ctx = None;
            }
            Op::Transfer { thread_changed, .. } => {
                st.transfers += 1;
                if *thread_changed {
                    st.transfers_changing_thread += 1;
                }
                // the hand-over wakes the new owner with "completed"
                ctx = Some(0);
            }
            Op::ReleaseQuery { result, .. } | Op::ReleaseTransferredOwnedBy { result, .. } | Op::ReleaseTransferredBegin { result, .. } => {
                ctx = Some(*result);
            }
            _ => {}
        }
        // invariants that hold between operations (not in the middle of a release / transfer)
        let quiescent = matches!(op, Op::Blocked { .. } | Op::Resumed { .. } | Op::TransferEdgesUpdated { .. } | Op::UndoTransfer { .. } | Op::ReleaseTransferredOwnedBy { .. });
        if quiescent {
            forest(d).map_err(&at)?;
            blocked_sets(d).map_err(&at)?;
            // every waiter's edge points at the thread that owns the query it waits for
            let edges: BTreeMap<&str, &str> = d.edges.iter().map(|(a, b)| (a.as_str(), b.as_str())).collect();
            for (q, waiters) in &d.query_dependents {
                if let Some(owner) = owner_thread(d, &claimed, *q) {
                    for w in waiters {
                        if let Some(to) = edges.get(w.as_str()) {
                            if *to != owner.as_str() {
                                return Err(at(format!("{w} waits for query {q:?} owned by {owner} but its wait edge points at {to}")));
                            }
                        }
                    }
                }
            }
        }
        if let Op::ReleaseTransferredOwnedBy { query, .. } = op {
            // nothing is left transferred (transitively) to the released query
            for (q, _) in &d.transferred {
                let mut cur = *q;
                let t: BTreeMap<Key, Key> = d.transferred.iter().map(|(q, (_, o))| (*q, *o)).collect();
                let mut steps = 0;
                while let Some(o) = t.get(&cur) {
                    cur = *o;
                    steps += 1;
                    if cur == *query {
                        return Err(at(format!("query {q:?} is still transferred to the released query {query:?}")));
                    }
                    if steps > t.len() + 1 {
                        break;
                    }
                }
            }
            if d.query_dependents.iter().any(|(q, v)| q == query && !v.is_empty()) {
                return Err(at("threads still wait on the released query".into()));
            }
        }
    }
    // at the end of the execution nobody is left waiting
    if let Some((_, d)) = trace.iter().rev().find(|(op, _)| !matches!(op, Op::Claim { .. } | Op::Release { .. })) {
        if !d.edges.is_empty() || !d.wait_results.is_empty() {
            return Err(format!("at the end of the execution threads are still blocked or have undelivered results: edges {:?}, wait_results {:?}", d.edges, d.wait_results));
        }
    }
    for (t, (p, _)) in &phase {
        if *p != 0 {
            return Err(format!("thread {t} never resumed from its wait"));
        }
    }
    Ok(())
}
