//! Evidence, replay files, known findings.

use std::collections::BTreeMap;
use std::path::{Path, PathBuf};

use serde::{Deserialize, Serialize};
use serde_json::{Value, json};

pub fn verif_root() -> PathBuf {
    // the binary lives in /verif/target/<cfg>/release/mc; the registered commands run with
    // cwd=/verif. Prefer VERIF_ROOT, then cwd if it has MANIFEST/DESIGN, else /verif.
    if let Ok(r) = std::env::var("VERIF_ROOT") {
        return PathBuf::from(r);
    }
    let cwd = std::env::current_dir().unwrap_or_else(|_| PathBuf::from("/verif"));
    if cwd.join("DESIGN.md").exists() { cwd } else { PathBuf::from("/verif") }
}

#[derive(Clone, Debug, Default, Serialize, Deserialize)]
pub struct Stats {
    /// complete executions of the real code (histories / schedules)
    pub executions: u64,
    /// distinct history prefixes / search-tree nodes
    pub states: u64,
    pub transitions: u64,
    /// comparisons of an observation of the real code with the reference
    pub checks: u64,
    /// executions that were non-trivial by the property's rule
    pub nontrivial: u64,
    /// free-form non-vacuity counters
    pub counters: BTreeMap<String, u64>,
    /// distinct outcome classes observed
    pub outcomes: BTreeMap<String, u64>,
    pub cap_hit: bool,
    pub samples: Vec<Value>,
    /// counters merged by maximum
    #[serde(default)]
    pub maxima: BTreeMap<String, u64>,
}

impl Stats {
    pub fn bump(&mut self, k: &str, n: u64) {
        if n > 0 {
            *self.counters.entry(k.to_string()).or_insert(0) += n;
        }
    }
    pub fn outcome(&mut self, k: &str) {
        *self.outcomes.entry(k.to_string()).or_insert(0) += 1;
    }
    pub fn merge(&mut self, o: &Stats) {
        self.executions += o.executions;
        self.states += o.states;
        self.transitions += o.transitions;
        self.checks += o.checks;
        self.nontrivial += o.nontrivial;
        for (k, v) in &o.counters {
            *self.counters.entry(k.clone()).or_insert(0) += v;
        }
        for (k, v) in &o.outcomes {
            *self.outcomes.entry(k.clone()).or_insert(0) += v;
        }
        self.cap_hit |= o.cap_hit;
        for (k, v) in &o.maxima {
            let e = self.maxima.entry(k.clone()).or_insert(0);
            *e = (*e).max(*v);
        }
        for s in &o.samples {
            if self.samples.len() < 6 {
                self.samples.push(s.clone());
            }
        }
    }
}

#[derive(Clone, Debug, Serialize, Deserialize)]
pub struct Viol {
    pub property: String,
    /// stable signature used to match known findings
    pub signature: String,
    pub what: String,
    /// everything needed to re-run exactly this case
    pub case: Value,
}

pub fn write_replay(v: &Viol) -> PathBuf {
    let dir = verif_root().join("replays");
    let _ = std::fs::create_dir_all(&dir);
    let body = serde_json::to_string_pretty(v).unwrap();
    let mut h: u64 = 0xcbf29ce484222325;
    for b in body.bytes() {
        h ^= b as u64;
        h = h.wrapping_mul(0x100000001b3);
    }
    let p = dir.join(format!("{}-{:016x}.json", v.property, h));
    let _ = std::fs::write(&p, body);
    p
}

#[derive(Clone, Debug, Serialize, Deserialize)]
pub struct KnownFinding {
    pub property: String,
    /// "open" or "fixed"
    pub status: String,
    /// violations whose signature starts with this string are this finding
    pub signature_prefix: String,
    pub what: String,
    #[serde(default)]
    pub commit: Option<String>,
    /// if non-empty, only violations on these inputs (program / scenario names: the part of the
    /// signature after the prefix) are this finding; a violation of the same class on any other
    /// input is reported as new
    #[serde(default)]
    pub inputs: Vec<String>,
    /// inputs on which the finding additionally manifests within the bounds of the thorough tier
    /// only; not consulted by the quick tier, so that a new failure of the same class on such an
    /// input in the quick tier is still reported
    #[serde(default)]
    pub inputs_thorough: Vec<String>,
}

pub fn load_known() -> Vec<KnownFinding> {
    // development aid (never set by the registered commands): report everything, so that replay
    // files for the known findings can be regenerated
    if std::env::var("MC_IGNORE_KNOWN").is_ok() {
        return Vec::new();
    }
    let p = verif_root().join("known_findings.json");
    match std::fs::read_to_string(&p) {
        Ok(s) => serde_json::from_str::<Vec<KnownFinding>>(&s).unwrap_or_else(|e| {
            eprintln!("MACHINERY: cannot parse {}: {e}", p.display());
            std::process::exit(2)
        }),
        Err(_) => Vec::new(),
    }
}

pub struct Report<'a> {
    pub id: &'a str,
    pub tier: &'a str,
    pub engine: &'a str,
    pub config: &'a str,
    pub rule: &'a str,
    pub bounds: Value,
    pub exhaustive_within_bounds: bool,
    pub assumptions: Vec<String>,
    pub level: &'a str,
    pub extra: Value,
}

/// Writes the evidence file, prints VIOLATION / KNOWN-FINDING lines, returns the exit code.
pub fn finish(rep: Report<'_>, stats: &Stats, viols: &[Viol], wall_s: f64) -> i32 {
    let known = load_known();
    let mut unknown: Vec<&Viol> = Vec::new();
    let mut matched: BTreeMap<String, u64> = BTreeMap::new();
    for v in viols {
        let k = known
            .iter()
            .find(|k| {
                k.status == "open"
                    && k.property == v.property
                    && v.signature.starts_with(&k.signature_prefix)
                    && ((k.inputs.is_empty() && k.inputs_thorough.is_empty()) || {
                        let rest = v.signature[k.signature_prefix.len()..].trim_start_matches(':');
                        k.inputs.iter().any(|i| i == rest) || (rep.tier == "thorough" && k.inputs_thorough.iter().any(|i| i == rest))
                    })
            });
        match k {
            Some(k) => *matched.entry(format!("{} {}", k.signature_prefix, k.what)).or_insert(0) += 1,
            None => unknown.push(v),
        }
    }
    for (k, n) in &matched {
        println!("KNOWN-FINDING: property={} {} ({} cases)", rep.id, k, n);
    }
    let mut paths = Vec::new();
    // one replay per distinct signature (first = smallest, enumeration is simplest-first)
    let mut seen = std::collections::BTreeSet::new();
    for v in &unknown {
        if seen.insert(v.signature.clone()) && paths.len() < 10 {
            let p = write_replay(v);
            println!("VIOLATION property={} replay={}", rep.id, p.display());
            println!("  what: {}", v.what);
            paths.push(p.display().to_string());
        }
    }
    if let Ok(path) = std::env::var("MC_SIG_DUMP") {
        // development aid: all violation signatures of this run (never read by the checks)
        let mut all: Vec<String> = viols.iter().map(|v| v.signature.clone()).collect();
        all.sort();
        all.dedup();
        let _ = std::fs::write(path, all.join("\n"));
    }
    let seed: i64 = std::env::var("VERIF_SEED").ok().and_then(|s| s.parse().ok()).unwrap_or(0);
    let mut samples = stats.samples.clone();
    if samples.is_empty() {
        samples.push(json!("no sample recorded"));
    }
    let ev = json!({
        "property_id": rep.id,
        "tier": rep.tier,
        "seed": seed,
        "level": rep.level,
        "coverage": {
            "states": stats.states.max(1),
            "transitions": stats.transitions.max(1),
            "traces_validated_against_impl": stats.executions,
            "evaluations": stats.executions.max(1),
            "distinct_nontrivial": stats.nontrivial,
            "rule": rep.rule,
            "samples": samples,
            "exhaustive": rep.exhaustive_within_bounds && !stats.cap_hit,
            "checks_against_reference": stats.checks,
            "bounds": rep.bounds,
            "cap_hit": stats.cap_hit,
            "outcome_classes": stats.outcomes,
            "nonvacuity": stats.counters,
            "maxima": stats.maxima,
            "engine": rep.engine,
            "config": rep.config,
            "known_findings_matched": matched,
            "extra": rep.extra,
        },
        "assumptions": rep.assumptions,
        "wall_s": wall_s,
        "violations": unknown.len(),
    });
    // a property decided in several build configurations writes one part per configuration; the
    // check script merges them into evidence/<id>.json
    let (dir, name) = match std::env::var("MC_EVIDENCE_SUFFIX") {
        Ok(suf) if !suf.is_empty() => (verif_root().join("evidence").join("parts"), format!("{}.{}.json", rep.id, suf)),
        _ => (verif_root().join("evidence"), format!("{}.json", rep.id)),
    };
    let _ = std::fs::create_dir_all(&dir);
    let p = dir.join(name);
    if let Err(e) = std::fs::write(&p, serde_json::to_string_pretty(&ev).unwrap()) {
        eprintln!("MACHINERY: cannot write evidence {}: {e}", p.display());
        return 2;
    }
    println!(
        "{} {}: executions={} states={} checks={} nontrivial={} outcomes={} violations={} known={} wall={:.1}s{}",
        rep.id,
        rep.tier,
        stats.executions,
        stats.states,
        stats.checks,
        stats.nontrivial,
        stats.outcomes.len(),
        unknown.len(),
        matched.values().sum::<u64>(),
        wall_s,
        if stats.cap_hit { " CAP-HIT" } else { "" }
    );
    if unknown.is_empty() { 0 } else { 1 }
}

pub fn read_replay(path: &Path) -> Viol {
    let s = std::fs::read_to_string(path).unwrap_or_else(|e| {
        eprintln!("MACHINERY: cannot read replay {}: {e}", path.display());
        std::process::exit(2)
    });
    serde_json::from_str(&s).unwrap_or_else(|e| {
        eprintln!("MACHINERY: cannot parse replay {}: {e}", path.display());
        std::process::exit(2)
    })
}
