//! C23: the bounded-exhaustive history sets of the other sequential properties (and the panic
//! injection of C22) executed under the monitoring allocator (`memchk.rs`) with retained
//! references revalidated before every mutable borrow of the database, and a leak check.
//!
//! Per history: run it on a fresh database, drop the database, then run it a second time in a
//! new allocation epoch and drop again: no block allocated in the second epoch may be live
//! (the first run absorbs one-time allocations of statics and thread-local pools).

use std::sync::Arc;
use std::time::Instant;

use serde_json::json;

use crate::e1::{Case, Spec, WorkerOut};
use crate::evid::{Stats, Viol};
use crate::memchk;
use ql::ex::{Dur, Op, Program};
use ql::items::{Out, Pk, Sess};
use ql::val::{inj, retain};

fn is_mutation(op: &Op) -> bool {
    matches!(op, Op::Set(..) | Op::SetD(..) | Op::Syn(_) | Op::SetExtSyn(..) | Op::Swap(_) | Op::LruCap(_) | Op::MkLruCap(_) | Op::LruTrig | Op::Cancel | Op::RoundTrip)
}

type V3 = (String, String, usize);

/// One run of the history (+ epilogue) on a fresh database which is dropped at the end.
/// Returns (violation, callback points passed, injected panic fired).
fn one_run(prog: &Arc<Program>, hist: &[Op], inject: i64, stats: &mut Stats) -> (Option<V3>, u64, bool) {
    let mut sess = Sess::new(prog.clone());
    sess.db.cx_arc().logging.store(false, std::sync::atomic::Ordering::SeqCst);
    sess.db.cx_arc().event_points.store(true, std::sync::atomic::Ordering::SeqCst);
    retain::enable(true);
    inj::arm(inject);
    let mut tail: Vec<Op> = vec![Op::Syn(Dur::Low)];
    tail.extend((0..prog.nodes.len() as u8).map(Op::Q));
    let mut viol: Option<V3> = None;
    for (i, op) in hist.iter().chain(tail.iter()).enumerate() {
        if is_mutation(op) {
            match retain::revalidate() {
                Ok(n) => stats.bump("references_revalidated_before_mutable_borrow", n as u64),
                Err(e) => {
                    viol = Some(("dangling-reference".into(), format!("before step {i} {op:?}: {e}"), i));
                    break;
                }
            }
        }
        let out = sess.apply(op);
        stats.checks += 1;
        if let Out::Panic(Pk::Other(m)) = &out {
            if m.contains("storage corrupted") {
                viol = Some(("poisoned-read".into(), format!("step {i} {op:?}: {m} (a value reached through salsa holds allocator poison or lost its pattern)"), i));
                break;
            }
        }
        if let Some(e) = memchk::take_error() {
            viol = Some(("allocator".into(), format!("step {i} {op:?}: {e}"), i));
            break;
        }
    }
    let points = inj::disarm();
    let fired = inj::fired();
    if viol.is_none() {
        if let Err(e) = retain::revalidate() {
            viol = Some(("dangling-reference".into(), format!("at the end of the history: {e}"), hist.len()));
        }
    }
    retain::enable(false);
    drop(sess);
    if viol.is_none() {
        if let Some(e) = memchk::take_error() {
            viol = Some(("allocator".into(), format!("while dropping the database: {e}"), hist.len()));
        }
    }
    (viol, points, fired)
}

/// Both runs + leak check + quarantine drain. Returns (violation, points, fired).
pub fn run_case(prog: &Arc<Program>, hist: &[Op], inject: i64, stats: &mut Stats) -> (Option<V3>, u64, bool) {
    let _ = memchk::take_error();
    let _e1 = memchk::new_epoch();
    let (v, points, fired) = one_run(prog, hist, inject, stats);
    if v.is_some() {
        memchk::drain(0);
        let _ = memchk::take_error();
        return (v, points, fired);
    }
    let e2 = memchk::new_epoch();
    let (v, _, _) = one_run(prog, hist, inject, stats);
    let after = memchk::new_epoch();
    let _ = after;
    if v.is_some() {
        memchk::drain(0);
        let _ = memchk::take_error();
        return (v, points, fired);
    }
    let (n, bytes, sizes) = memchk::live_in_epoch(e2);
    stats.checks += 1;
    if n > 0 {
        memchk::drain(0);
        let _ = memchk::take_error();
        return (
            Some(("leak".into(), format!("{n} blocks ({bytes} bytes; sizes {:?}) allocated while the history ran a second time are still live after the database was dropped", &sizes[..(n as usize).min(4)]), hist.len())),
            points,
            fired,
        );
    }
    memchk::drain(0);
    if let Some(e) = memchk::take_error() {
        return (Some(("allocator".into(), format!("when the quarantine was drained after the history: {e}"), hist.len())), points, fired);
    }
    (None, points, fired)
}

/// Progress file: the case a worker is running, so that a crash (SIGSEGV, abort) can be
/// attributed and replayed.
fn progress_path(w: usize) -> std::path::PathBuf {
    crate::evid::verif_root().join("target").join(format!("c23-progress-{w}.json"))
}

pub fn write_progress(w: usize, prog: &Program, hist: &[Op], inject: i64) {
    let _ = std::fs::write(progress_path(w), serde_json::to_string(&json!({"case": Case { program: prog.clone(), history: hist.to_vec() }, "inject": inject})).unwrap());
}

pub fn read_progress(w: usize) -> Option<serde_json::Value> {
    serde_json::from_str(&std::fs::read_to_string(progress_path(w)).ok()?).ok()
}

pub fn clear_progress(w: usize) {
    let _ = std::fs::remove_file(progress_path(w));
}

pub struct Borrowed {
    pub spec: Spec,
    /// enumerate panic injections as well
    pub faults: bool,
}

pub fn run_worker(specs: &[Borrowed], w: usize, nw: usize, cap_s: u64) -> WorkerOut {
    let start = Instant::now();
    let mut out = WorkerOut::default();
    if let Err(e) = memchk::self_test() {
        eprintln!("MACHINERY: allocator monitor self-test failed: {e}");
        std::process::exit(2);
    }
    let mut viol_sigs = std::collections::BTreeSet::new();
    // work units (set, program, first operation), interleaved over the borrowed sets so that a
    // time cap leaves every set partially covered instead of the last ones untouched
    let mut units: Vec<(usize, usize, usize, usize)> = Vec::new(); // (rank, set, program, first)
    for (si, b) in specs.iter().enumerate() {
        let mut rank = 0;
        for (pi, prog) in b.spec.programs.iter().enumerate() {
            let na = (b.spec.alphabet)(prog).len();
            for first in 0..na {
                units.push((rank, si, pi, first));
                rank += 1;
            }
        }
    }
    units.sort();
    'all: for (ui, (_, si, pi, first)) in units.iter().enumerate() {
        if ui % nw != w {
            continue;
        }
        let b = &specs[*si];
        let spec = &b.spec;
        let alpha = (spec.alphabet)(&spec.programs[*pi]);
        let prog = Arc::new(spec.programs[*pi].clone());
        let na = alpha.len();
        let d = crate::e1::depth_of(spec, &prog);
        let mut idx = vec![0usize; d];
        idx[0] = *first;
        loop {
            let hist: Vec<Op> = idx.iter().map(|i| alpha[*i].clone()).collect();
            out.stats.states += 1;
            let mut injections: Vec<i64> = vec![-1];
            let mut k = 0;
            while k < injections.len() {
                let inject = injections[k];
                k += 1;
                write_progress(w, &prog, &hist, inject);
                let (v, points, fired) = run_case(&prog, &hist, inject, &mut out.stats);
                out.stats.executions += 2;
                out.stats.transitions += 1;
                out.stats.bump(&format!("cases_from_{}", spec.id), 1);
                if inject < 0 && b.faults {
                    injections.extend(0..points as i64);
                }
                if fired {
                    out.stats.bump("cases_with_injected_panic", 1);
                }
                if let Some((oracle, msg, step)) = v {
                    let sig = format!("C23:{}:{}", oracle, prog.name);
                    if viol_sigs.insert(sig.clone()) {
                        out.viols.push(Viol {
                            property: "C23".into(),
                            signature: sig,
                            what: msg,
                            case: json!({"engine": "e1-mem", "config": "mem", "step": step, "inject": inject,
                                "case": Case { program: (*prog).clone(), history: hist.clone() }}),
                        });
                    }
                }
            }
            out.stats.nontrivial += 1;
            if out.stats.samples.len() < 2 && w == 0 {
                out.stats.samples.push(json!({"borrowed_from": spec.id, "program": prog.name, "history": format!("{hist:?}")}));
            }
            let mut k = d;
            let mut done = true;
            while k > 1 {
                k -= 1;
                idx[k] += 1;
                if idx[k] < na {
                    done = false;
                    break;
                }
                idx[k] = 0;
            }
            if done {
                break;
            }
            if start.elapsed().as_secs() > cap_s {
                out.stats.cap_hit = true;
                break 'all;
            }
        }
    }
    clear_progress(w);
    let c = memchk::counters();
    out.stats.bump("allocations_monitored", c.allocs);
    out.stats.bump("frees_monitored", c.frees);
    out.stats.bump("references_revalidated", retain::total_revalidated());
    let e = out.stats.maxima.entry("quarantine_peak_bytes".into()).or_insert(0);
    *e = (*e).max(c.quarantine_peak as u64);
    out
}

/// Re-run one case in this process. Some(Some(..)) = violation again.
pub fn rerun(case: &serde_json::Value) -> Option<Option<V3>> {
    let c: Case = serde_json::from_value(case.get("case")?.clone()).ok()?;
    let inject = case.get("inject").and_then(|x| x.as_i64()).unwrap_or(-1);
    let mut st = Stats::default();
    let prog = Arc::new(c.program);
    Some(run_case(&prog, &c.history, inject, &mut st).0)
}
