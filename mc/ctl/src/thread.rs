//! `shuttle::thread` look-alikes on real OS threads.

use std::sync::{Arc, Mutex};

use crate::engine::{self, Pending};

pub use std::thread::panicking;

/// Logical thread id: 0, 1, 2, … in spawn order inside an exploration (std's ids would differ
/// between executions).
#[derive(Clone, Copy, PartialEq, Eq, Hash, PartialOrd, Ord)]
pub struct ThreadId(u32);

impl ThreadId {
    pub fn index(self) -> usize {
        self.0 as usize
    }
}

impl std::fmt::Debug for ThreadId {
    fn fmt(&self, f: &mut std::fmt::Formatter<'_>) -> std::fmt::Result {
        write!(f, "ThreadId({})", self.0)
    }
}

pub struct Thread {
    id: ThreadId,
}

impl Thread {
    pub fn id(&self) -> ThreadId {
        self.id
    }
    pub fn name(&self) -> Option<&str> {
        None
    }
}

pub fn current() -> Thread {
    match engine::cur_index_pub() {
        Some(i) => Thread { id: ThreadId(i as u32) },
        None => {
            // uncontrolled thread: a stable id per OS thread, outside the logical range
            thread_local! { static UNCONTROLLED: u32 = {
                static NEXT: std::sync::atomic::AtomicU32 = std::sync::atomic::AtomicU32::new(1000);
                NEXT.fetch_add(1, std::sync::atomic::Ordering::SeqCst)
            } }
            Thread { id: ThreadId(UNCONTROLLED.with(|x| *x)) }
        }
    }
}

pub struct JoinHandle<T> {
    tid: Option<usize>,
    os: Option<std::thread::JoinHandle<()>>,
    result: Arc<(Mutex<Option<std::thread::Result<T>>>, std::sync::Condvar)>,
}

impl<T> JoinHandle<T> {
    pub fn join(mut self) -> std::thread::Result<T> {
        if let Some(tid) = self.tid {
            engine::sched_point(Pending::Join(tid));
        }
        if let Some(os) = self.os.take() {
            let _ = os.join();
        }
        let mut g = self.result.0.lock().unwrap_or_else(|e| e.into_inner());
        loop {
            if let Some(r) = g.take() {
                return r;
            }
            g = self.result.1.wait(g).unwrap_or_else(|e| e.into_inner());
        }
    }
    pub fn is_finished(&self) -> bool {
        self.result.0.lock().unwrap_or_else(|e| e.into_inner()).is_some()
    }
}

pub fn spawn<F, T>(f: F) -> JoinHandle<T>
where
    F: FnOnce() -> T + Send + 'static,
    T: Send + 'static,
{
    let result: Arc<(Mutex<Option<std::thread::Result<T>>>, std::sync::Condvar)> =
        Arc::new((Mutex::new(None), std::sync::Condvar::new()));
    let r2 = result.clone();
    match engine::cur_pub() {
        Some(ex) => {
            let tid = engine::register_thread_pub(&ex, "spawned".into());
            let ex2 = ex.clone();
            engine::pool::submit(
                tid,
                Box::new(move || {
                    engine::enter_thread_pub(&ex2, tid);
                    let r = std::panic::catch_unwind(std::panic::AssertUnwindSafe(f));
                    *r2.0.lock().unwrap_or_else(|e| e.into_inner()) = Some(r);
                    r2.1.notify_all();
                    engine::finish_thread_pub(&ex2, tid);
                }),
            );
            // the spawn itself is a scheduling point of the parent
            engine::sched_point(Pending::None);
            JoinHandle { tid: Some(tid), os: None, result }
        }
        None => {
            let os = std::thread::spawn(move || {
                let r = std::panic::catch_unwind(std::panic::AssertUnwindSafe(f));
                *r2.0.lock().unwrap_or_else(|e| e.into_inner()) = Some(r);
                r2.1.notify_all();
            });
            JoinHandle { tid: None, os: Some(os), result }
        }
    }
}

pub fn yield_now() {
    engine::sched_point(Pending::None);
}

pub fn sleep(_d: std::time::Duration) {
    engine::sched_point(Pending::None);
}
