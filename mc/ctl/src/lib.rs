//! placeholder, see DESIGN.md §2.2
