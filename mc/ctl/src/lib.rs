//! `ctl` — a drop-in replacement for the subset of the `shuttle` crate that salsa uses
//! (`--features shuttle`), built for *exhaustive* preemption-bounded exploration of real code.
//!
//! * every logical thread is a real OS thread (so `std::thread::panicking()`, unwinding through
//!   guards, `catch_unwind`, thread-locals all behave exactly as in production);
//! * exactly one logical thread runs at a time; every atomic operation, mutex acquisition,
//!   condvar wait / notify, spawn, join and thread end is a *scheduling point* at which the
//!   explorer decides who runs next;
//! * waiting is visible: a thread pending on a held mutex, an un-notified condvar or an
//!   unfinished join is disabled; "no enabled thread, some thread unfinished" is a deadlock;
//! * the search is iterative-context-bounding DFS by re-execution (see `explore`).
//!
//! Outside an exploration every primitive degrades to its plain std behaviour, so the same types
//! can be used by sequential code.

pub mod engine;
pub mod sync;
pub mod thread;

pub use engine::{Config, Failure, Report, choose, current_schedule, explore, in_exploration, note, replay};
pub use std::thread_local;

/// Make the operations of `sync::atomic::TokenU8` scheduling points (or not).
pub fn token_points(on: bool) {
    sync::atomic::TOKEN_POINTS.store(on, std::sync::atomic::Ordering::SeqCst);
}

/// Compatibility shims for code written against shuttle's top-level API.
pub fn check_dfs<F>(f: F, _max: Option<usize>)
where
    F: Fn() + Send + Sync + 'static,
{
    let r = explore(Config::default(), f);
    if let Some(fail) = r.failure {
        panic!("ctl: {fail:?}");
    }
}
