//! `shuttle::sync` look-alikes.

pub use std::sync::{Arc, LockResult, PoisonError, TryLockError, TryLockResult, Weak};

use crate::engine::{self, Pending};

/// A mutex whose acquisition is a scheduling point. Never poisons (like `parking_lot`, which is
/// what salsa uses in production).
pub struct Mutex<T: ?Sized> {
    inner: std::sync::Mutex<T>,
}

pub struct MutexGuard<'a, T: ?Sized> {
    mutex: &'a Mutex<T>,
    inner: Option<std::sync::MutexGuard<'a, T>>,
}

impl<T> Mutex<T> {
    pub const fn new(value: T) -> Self {
        Mutex { inner: std::sync::Mutex::new(value) }
    }
    pub fn into_inner(self) -> LockResult<T> {
        Ok(self.inner.into_inner().unwrap_or_else(|e| e.into_inner()))
    }
}

impl<T: ?Sized> Mutex<T> {
    fn addr(&self) -> usize {
        self as *const Mutex<T> as *const () as usize
    }

    pub fn lock(&self) -> LockResult<MutexGuard<'_, T>> {
        engine::sched_point(Pending::Lock(self.addr()));
        let g = self.inner.lock().unwrap_or_else(|e| e.into_inner());
        Ok(MutexGuard { mutex: self, inner: Some(g) })
    }

    pub fn try_lock(&self) -> TryLockResult<MutexGuard<'_, T>> {
        engine::sched_point(Pending::None);
        match self.inner.try_lock() {
            Ok(g) => {
                engine::note_acquired(self.addr());
                Ok(MutexGuard { mutex: self, inner: Some(g) })
            }
            Err(TryLockError::Poisoned(e)) => {
                engine::note_acquired(self.addr());
                Ok(MutexGuard { mutex: self, inner: Some(e.into_inner()) })
            }
            Err(TryLockError::WouldBlock) => Err(TryLockError::WouldBlock),
        }
    }

    pub fn get_mut(&mut self) -> LockResult<&mut T> {
        Ok(self.inner.get_mut().unwrap_or_else(|e| e.into_inner()))
    }
}

impl<T: Default> Default for Mutex<T> {
    fn default() -> Self {
        Mutex::new(T::default())
    }
}

impl<T: ?Sized + std::fmt::Debug> std::fmt::Debug for Mutex<T> {
    fn fmt(&self, f: &mut std::fmt::Formatter<'_>) -> std::fmt::Result {
        f.debug_struct("Mutex").finish_non_exhaustive()
    }
}

impl<T: ?Sized> std::ops::Deref for MutexGuard<'_, T> {
    type Target = T;
    fn deref(&self) -> &T {
        self.inner.as_ref().unwrap()
    }
}

impl<T: ?Sized> std::ops::DerefMut for MutexGuard<'_, T> {
    fn deref_mut(&mut self) -> &mut T {
        self.inner.as_mut().unwrap()
    }
}

impl<T: ?Sized> Drop for MutexGuard<'_, T> {
    fn drop(&mut self) {
        if let Some(g) = self.inner.take() {
            drop(g);
            engine::release_mutex(self.mutex.addr());
        }
    }
}

impl<T: ?Sized + std::fmt::Debug> std::fmt::Debug for MutexGuard<'_, T> {
    fn fmt(&self, f: &mut std::fmt::Formatter<'_>) -> std::fmt::Result {
        std::fmt::Debug::fmt(&**self, f)
    }
}

/// Condition variable. Waiting is visible to the explorer (a waiter is disabled until notified
/// and its mutex is free). No spurious wake-ups.
#[derive(Default)]
pub struct Condvar {
    inner: std::sync::Condvar,
}

impl std::fmt::Debug for Condvar {
    fn fmt(&self, f: &mut std::fmt::Formatter<'_>) -> std::fmt::Result {
        f.debug_struct("Condvar").finish_non_exhaustive()
    }
}

impl Condvar {
    pub const fn new() -> Self {
        Condvar { inner: std::sync::Condvar::new() }
    }
    fn addr(&self) -> usize {
        self as *const Condvar as usize
    }

    pub fn wait<'a, T>(&self, mut guard: MutexGuard<'a, T>) -> LockResult<MutexGuard<'a, T>> {
        let mutex = guard.mutex;
        let inner = guard.inner.take().unwrap();
        if engine::in_exploration() {
            drop(inner);
            engine::release_mutex(mutex.addr());
            engine::sched_point(Pending::CvWait { cv: self.addr(), m: mutex.addr(), notified: false });
            let g = mutex.inner.lock().unwrap_or_else(|e| e.into_inner());
            Ok(MutexGuard { mutex, inner: Some(g) })
        } else {
            let g = self.inner.wait(inner).unwrap_or_else(|e| e.into_inner());
            Ok(MutexGuard { mutex, inner: Some(g) })
        }
    }

    pub fn wait_while<'a, T, F>(&self, mut guard: MutexGuard<'a, T>, mut condition: F) -> LockResult<MutexGuard<'a, T>>
    where
        F: FnMut(&mut T) -> bool,
    {
        while condition(&mut *guard) {
            guard = self.wait(guard)?;
        }
        Ok(guard)
    }

    pub fn notify_one(&self) {
        engine::sched_point(Pending::None);
        engine::notify(self.addr(), false);
        self.inner.notify_one();
    }

    pub fn notify_all(&self) {
        engine::sched_point(Pending::None);
        engine::notify(self.addr(), true);
        self.inner.notify_all();
    }
}

pub mod atomic {
    pub use std::sync::atomic::Ordering;

    use crate::engine::{self, Pending};

    macro_rules! atomic_int {
        ($name:ident, $std:ident, $t:ty) => {
            #[derive(Default)]
            pub struct $name(std::sync::atomic::$std);
            impl $name {
                pub const fn new(v: $t) -> Self {
                    Self(std::sync::atomic::$std::new(v))
                }
                pub fn load(&self, _o: Ordering) -> $t {
                    engine::sched_point(Pending::None);
                    self.0.load(Ordering::SeqCst)
                }
                pub fn store(&self, v: $t, _o: Ordering) {
                    engine::sched_point(Pending::None);
                    self.0.store(v, Ordering::SeqCst)
                }
                pub fn swap(&self, v: $t, _o: Ordering) -> $t {
                    engine::sched_point(Pending::None);
                    self.0.swap(v, Ordering::SeqCst)
                }
                pub fn compare_exchange(&self, c: $t, n: $t, _s: Ordering, _f: Ordering) -> Result<$t, $t> {
                    engine::sched_point(Pending::None);
                    self.0.compare_exchange(c, n, Ordering::SeqCst, Ordering::SeqCst)
                }
                pub fn compare_exchange_weak(&self, c: $t, n: $t, _s: Ordering, _f: Ordering) -> Result<$t, $t> {
                    engine::sched_point(Pending::None);
                    self.0.compare_exchange(c, n, Ordering::SeqCst, Ordering::SeqCst)
                }
                pub fn fetch_update<F>(&self, _s: Ordering, _f: Ordering, f: F) -> Result<$t, $t>
                where
                    F: FnMut($t) -> Option<$t>,
                {
                    engine::sched_point(Pending::None);
                    self.0.fetch_update(Ordering::SeqCst, Ordering::SeqCst, f)
                }
                pub fn get_mut(&mut self) -> &mut $t {
                    self.0.get_mut()
                }
                pub fn into_inner(self) -> $t {
                    self.0.into_inner()
                }
            }
            impl std::fmt::Debug for $name {
                fn fmt(&self, f: &mut std::fmt::Formatter<'_>) -> std::fmt::Result {
                    std::fmt::Debug::fmt(&self.0, f)
                }
            }
            impl From<$t> for $name {
                fn from(v: $t) -> Self {
                    Self::new(v)
                }
            }
        };
    }
    macro_rules! atomic_arith {
        ($name:ident, $t:ty) => {
            impl $name {
                pub fn fetch_add(&self, v: $t, _o: Ordering) -> $t {
                    engine::sched_point(Pending::None);
                    self.0.fetch_add(v, Ordering::SeqCst)
                }
                pub fn fetch_sub(&self, v: $t, _o: Ordering) -> $t {
                    engine::sched_point(Pending::None);
                    self.0.fetch_sub(v, Ordering::SeqCst)
                }
                pub fn fetch_max(&self, v: $t, _o: Ordering) -> $t {
                    engine::sched_point(Pending::None);
                    self.0.fetch_max(v, Ordering::SeqCst)
                }
                pub fn fetch_min(&self, v: $t, _o: Ordering) -> $t {
                    engine::sched_point(Pending::None);
                    self.0.fetch_min(v, Ordering::SeqCst)
                }
            }
        };
    }
    macro_rules! atomic_bits {
        ($name:ident, $t:ty) => {
            impl $name {
                pub fn fetch_or(&self, v: $t, _o: Ordering) -> $t {
                    engine::sched_point(Pending::None);
                    self.0.fetch_or(v, Ordering::SeqCst)
                }
                pub fn fetch_and(&self, v: $t, _o: Ordering) -> $t {
                    engine::sched_point(Pending::None);
                    self.0.fetch_and(v, Ordering::SeqCst)
                }
                pub fn fetch_xor(&self, v: $t, _o: Ordering) -> $t {
                    engine::sched_point(Pending::None);
                    self.0.fetch_xor(v, Ordering::SeqCst)
                }
            }
        };
    }
    atomic_int!(AtomicBool, AtomicBool, bool);
    atomic_bits!(AtomicBool, bool);
    atomic_int!(AtomicU8, AtomicU8, u8);
    atomic_arith!(AtomicU8, u8);
    atomic_bits!(AtomicU8, u8);
    atomic_int!(AtomicU16, AtomicU16, u16);
    atomic_arith!(AtomicU16, u16);
    atomic_bits!(AtomicU16, u16);
    atomic_int!(AtomicU32, AtomicU32, u32);
    atomic_arith!(AtomicU32, u32);
    atomic_bits!(AtomicU32, u32);
    atomic_int!(AtomicU64, AtomicU64, u64);
    atomic_arith!(AtomicU64, u64);
    atomic_bits!(AtomicU64, u64);
    atomic_int!(AtomicUsize, AtomicUsize, usize);
    atomic_arith!(AtomicUsize, usize);
    atomic_bits!(AtomicUsize, usize);
    atomic_int!(AtomicI32, AtomicI32, i32);
    atomic_arith!(AtomicI32, i32);
    atomic_int!(AtomicI64, AtomicI64, i64);
    atomic_arith!(AtomicI64, i64);
    atomic_int!(AtomicIsize, AtomicIsize, isize);
    atomic_arith!(AtomicIsize, isize);

    /// An `AtomicU8` whose operations are scheduling points only while `token_points(true)` is
    /// in effect. Used (through a guarded hook) for salsa's per-handle cancellation token, which
    /// otherwise is a plain std atomic invisible to the scheduler; off by default so that the
    /// schedule spaces of the other checks are unchanged.
    #[derive(Default, Debug)]
    pub struct TokenU8(std::sync::atomic::AtomicU8);
    pub(crate) static TOKEN_POINTS: std::sync::atomic::AtomicBool = std::sync::atomic::AtomicBool::new(false);
    impl TokenU8 {
        #[inline]
        fn pt() {
            if TOKEN_POINTS.load(Ordering::SeqCst) {
                engine::sched_point(Pending::None);
            }
        }
        pub const fn new(v: u8) -> Self {
            Self(std::sync::atomic::AtomicU8::new(v))
        }
        pub fn load(&self, _o: Ordering) -> u8 {
            Self::pt();
            self.0.load(Ordering::SeqCst)
        }
        pub fn store(&self, v: u8, _o: Ordering) {
            Self::pt();
            self.0.store(v, Ordering::SeqCst)
        }
        pub fn fetch_or(&self, v: u8, _o: Ordering) -> u8 {
            Self::pt();
            self.0.fetch_or(v, Ordering::SeqCst)
        }
        pub fn fetch_and(&self, v: u8, _o: Ordering) -> u8 {
            Self::pt();
            self.0.fetch_and(v, Ordering::SeqCst)
        }
    }

    pub struct AtomicPtr<T>(std::sync::atomic::AtomicPtr<T>);
    impl<T> AtomicPtr<T> {
        pub const fn new(p: *mut T) -> Self {
            Self(std::sync::atomic::AtomicPtr::new(p))
        }
        pub fn load(&self, _o: Ordering) -> *mut T {
            engine::sched_point(Pending::None);
            self.0.load(Ordering::SeqCst)
        }
        pub fn store(&self, p: *mut T, _o: Ordering) {
            engine::sched_point(Pending::None);
            self.0.store(p, Ordering::SeqCst)
        }
        pub fn swap(&self, p: *mut T, _o: Ordering) -> *mut T {
            engine::sched_point(Pending::None);
            self.0.swap(p, Ordering::SeqCst)
        }
        pub fn compare_exchange(&self, c: *mut T, n: *mut T, _s: Ordering, _f: Ordering) -> Result<*mut T, *mut T> {
            engine::sched_point(Pending::None);
            self.0.compare_exchange(c, n, Ordering::SeqCst, Ordering::SeqCst)
        }
        pub fn compare_exchange_weak(&self, c: *mut T, n: *mut T, _s: Ordering, _f: Ordering) -> Result<*mut T, *mut T> {
            engine::sched_point(Pending::None);
            self.0.compare_exchange(c, n, Ordering::SeqCst, Ordering::SeqCst)
        }
        pub fn get_mut(&mut self) -> &mut *mut T {
            self.0.get_mut()
        }
        pub fn into_inner(self) -> *mut T {
            self.0.into_inner()
        }
    }
    impl<T> Default for AtomicPtr<T> {
        fn default() -> Self {
            Self::new(std::ptr::null_mut())
        }
    }
    impl<T> std::fmt::Debug for AtomicPtr<T> {
        fn fmt(&self, f: &mut std::fmt::Formatter<'_>) -> std::fmt::Result {
            std::fmt::Debug::fmt(&self.0, f)
        }
    }

    pub fn fence(_o: Ordering) {
        engine::sched_point(Pending::None);
    }
}
