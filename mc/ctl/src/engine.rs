//! The scheduler / explorer.

use std::cell::RefCell;
use std::collections::HashMap;
use std::sync::{Arc, Condvar, Mutex, MutexGuard};
use std::time::{Duration, Instant};

#[derive(Clone, Debug, PartialEq, Eq)]
pub(crate) enum Pending {
    /// about to perform an operation that is always enabled
    None,
    Lock(usize),
    CvWait { cv: usize, m: usize, notified: bool },
    Join(usize),
    Finished,
}

pub(crate) struct Th {
    pub pending: Pending,
    pub finished: bool,
    pub cv: Arc<Condvar>,
    pub name: String,
}

#[derive(Clone, Debug, PartialEq, Eq)]
pub enum Failure {
    /// no thread is enabled, some thread has not finished
    Deadlock { schedule: Vec<u32>, blocked: Vec<String> },
    /// step bound exceeded
    Livelock { schedule: Vec<u32>, steps: usize },
    /// a replayed prefix did not reproduce the same number of options
    Nondeterminism { position: usize, expected_n: u32, got_n: u32, schedule: Vec<u32> },
    /// a panic escaped the root body
    RootPanic { schedule: Vec<u32>, message: String },
    /// the execution made no progress for a long wall-clock time (a thread blocked outside the
    /// controlled primitives)
    Hang { schedule: Vec<u32> },
}

pub(crate) struct State {
    pub threads: Vec<Th>,
    pub current: usize,
    pub held: HashMap<usize, usize>,
    plan: Vec<(u32, u32)>,
    pub rec: Vec<(u32, u32)>,
    preempt: u32,
    bound: u32,
    steps: usize,
    step_bound: usize,
    pub failure: Option<Failure>,
    all_done: bool,
    notes: Vec<String>,
}

pub(crate) struct Exec {
    pub st: Mutex<State>,
    done: Condvar,
}

thread_local! {
    static CUR: RefCell<Option<(Arc<Exec>, usize)>> = const { RefCell::new(None) };
}

pub(crate) fn cur() -> Option<(Arc<Exec>, usize)> {
    CUR.with(|c| c.borrow().clone())
}

pub fn in_exploration() -> bool {
    CUR.with(|c| c.borrow().is_some())
}

/// Logical index of the calling thread inside the current execution.
pub(crate) fn cur_index() -> Option<usize> {
    CUR.with(|c| c.borrow().as_ref().map(|x| x.1))
}

fn lock(ex: &Exec) -> MutexGuard<'_, State> {
    ex.st.lock().unwrap_or_else(|e| e.into_inner())
}

impl State {
    fn enabled(&self, t: usize) -> bool {
        let th = &self.threads[t];
        if th.finished {
            return false;
        }
        match &th.pending {
            Pending::None => true,
            Pending::Lock(a) => !self.held.contains_key(a),
            Pending::CvWait { m, notified, .. } => *notified && !self.held.contains_key(m),
            Pending::Join(j) => self.threads[*j].finished,
            Pending::Finished => false,
        }
    }

    fn schedule(&self) -> Vec<u32> {
        self.rec.iter().map(|d| d.0).collect()
    }

    /// Take a decision among `n` options (n >= 1).
    fn decide(&mut self, n: u32) -> Result<u32, ()> {
        let pos = self.rec.len();
        let c = if pos < self.plan.len() {
            let (c, en) = self.plan[pos];
            if (en != 0 && en != n) || c >= n {
                self.failure = Some(Failure::Nondeterminism {
                    position: pos,
                    expected_n: en,
                    got_n: n,
                    schedule: self.schedule(),
                });
                return Err(());
            }
            c
        } else {
            0
        };
        self.rec.push((c, n));
        Ok(c)
    }

    /// Choose the next thread to run. `me` has already published its pending operation.
    fn pick(&mut self, me: usize) -> Result<Option<usize>, ()> {
        let mut opts: Vec<usize> = Vec::with_capacity(self.threads.len());
        let self_enabled = self.enabled(me);
        if self_enabled {
            opts.push(me);
        }
        for t in 0..self.threads.len() {
            if t != me && self.enabled(t) {
                opts.push(t);
            }
        }
        if opts.is_empty() {
            return Ok(None);
        }
        let allowed = if self_enabled && self.preempt >= self.bound { 1 } else { opts.len() as u32 };
        let c = self.decide(allowed)?;
        if self_enabled && c != 0 {
            self.preempt += 1;
        }
        Ok(Some(opts[c as usize]))
    }

    fn complete_pending(&mut self, me: usize) {
        let p = std::mem::replace(&mut self.threads[me].pending, Pending::None);
        match p {
            Pending::Lock(a) => {
                debug_assert!(!self.held.contains_key(&a), "ctl: mutex granted while held");
                self.held.insert(a, me);
            }
            Pending::CvWait { m, .. } => {
                debug_assert!(!self.held.contains_key(&m), "ctl: mutex granted while held (cv)");
                self.held.insert(m, me);
            }
            _ => {}
        }
    }
}

fn park_forever(ex: &Exec, mut st: MutexGuard<'_, State>, me: usize) -> ! {
    let cv = st.threads[me].cv.clone();
    ex.done.notify_all();
    loop {
        st = cv.wait(st).unwrap_or_else(|e| e.into_inner());
    }
}

fn fail_and_park(ex: &Exec, mut st: MutexGuard<'_, State>, me: usize, f: Failure) -> ! {
    if st.failure.is_none() {
        st.failure = Some(f);
    }
    park_forever(ex, st, me)
}

/// A scheduling point of thread `me`: publish `pending`, let the explorer choose who runs, and
/// return once `me` has been granted its pending operation.
pub(crate) fn sched_point(pending: Pending) {
    let Some((ex, me)) = cur() else { return };
    let mut st = lock(&ex);
    if st.failure.is_some() {
        park_forever(&ex, st, me);
    }
    st.steps += 1;
    if st.steps > st.step_bound {
        let f = Failure::Livelock { schedule: st.schedule(), steps: st.steps };
        fail_and_park(&ex, st, me, f);
    }
    st.threads[me].pending = pending;
    let next = match st.pick(me) {
        Err(()) => park_forever(&ex, st, me),
        Ok(None) => {
            let blocked = st
                .threads
                .iter()
                .enumerate()
                .filter(|(_, t)| !t.finished)
                .map(|(i, t)| format!("{}:{}:{:?}", i, t.name, t.pending))
                .collect();
            let f = Failure::Deadlock { schedule: st.schedule(), blocked };
            fail_and_park(&ex, st, me, f)
        }
        Ok(Some(n)) => n,
    };
    if next != me {
        st.current = next;
        st.threads[next].cv.notify_one();
        let cv = st.threads[me].cv.clone();
        while st.current != me {
            st = cv.wait(st).unwrap_or_else(|e| e.into_inner());
        }
    }
    st.complete_pending(me);
}

/// Thread `me` has finished: hand the baton on (or end the execution).
pub(crate) fn finish_thread(ex: &Arc<Exec>, me: usize) {
    let mut st = lock(ex);
    if st.failure.is_some() {
        park_forever(ex, st, me);
    }
    st.threads[me].finished = true;
    st.threads[me].pending = Pending::Finished;
    match st.pick(me) {
        Err(()) => park_forever(ex, st, me),
        Ok(None) => {
            if st.threads.iter().all(|t| t.finished) {
                st.all_done = true;
                ex.done.notify_all();
            } else {
                let blocked = st
                    .threads
                    .iter()
                    .enumerate()
                    .filter(|(_, t)| !t.finished)
                    .map(|(i, t)| format!("{}:{}:{:?}", i, t.name, t.pending))
                    .collect();
                let f = Failure::Deadlock { schedule: st.schedule(), blocked };
                st.failure = Some(f);
                ex.done.notify_all();
            }
        }
        Ok(Some(n)) => {
            st.current = n;
            st.threads[n].cv.notify_one();
        }
    }
}

/// Register a new logical thread; returns its index.
pub(crate) fn register_thread(ex: &Arc<Exec>, name: String) -> usize {
    let mut st = lock(ex);
    st.threads.push(Th { pending: Pending::None, finished: false, cv: Arc::new(Condvar::new()), name });
    st.threads.len() - 1
}

/// First action of a freshly spawned OS thread: become logical thread `me` and wait for the baton.
pub(crate) fn enter_thread(ex: &Arc<Exec>, me: usize) {
    CUR.with(|c| *c.borrow_mut() = Some((ex.clone(), me)));
    let mut st = lock(ex);
    let cv = st.threads[me].cv.clone();
    while st.current != me {
        if st.failure.is_some() {
            park_forever(ex, st, me);
        }
        st = cv.wait(st).unwrap_or_else(|e| e.into_inner());
    }
    st.complete_pending(me);
}

pub(crate) fn release_mutex(addr: usize) {
    if let Some((ex, _me)) = cur() {
        let mut st = lock(&ex);
        st.held.remove(&addr);
    }
}

/// Mark waiters of condvar `cv` as notified (one: the explorer chooses which if several).
pub(crate) fn notify(cv_addr: usize, all: bool) {
    let Some((ex, me)) = cur() else { return };
    let mut st = lock(&ex);
    let waiters: Vec<usize> = st
        .threads
        .iter()
        .enumerate()
        .filter(|(_, t)| matches!(&t.pending, Pending::CvWait { cv, notified: false, .. } if *cv == cv_addr))
        .map(|(i, _)| i)
        .collect();
    if waiters.is_empty() {
        return;
    }
    let chosen: Vec<usize> = if all || waiters.len() == 1 {
        waiters
    } else {
        match st.decide(waiters.len() as u32) {
            Ok(c) => vec![waiters[c as usize]],
            Err(()) => park_forever(&ex, st, me),
        }
    };
    for w in chosen {
        if let Pending::CvWait { notified, .. } = &mut st.threads[w].pending {
            *notified = true;
        }
    }
}

/// A data-choice point: returns a value in `0..n`, enumerated exhaustively by the explorer.
/// Outside an exploration returns 0.
pub fn choose(n: u32) -> u32 {
    let Some((ex, me)) = cur() else { return 0 };
    if n <= 1 {
        return 0;
    }
    let mut st = lock(&ex);
    match st.decide(n) {
        Ok(c) => c,
        Err(()) => park_forever(&ex, st, me),
    }
}

/// The choices taken so far in the current execution.
pub fn current_schedule() -> Vec<u32> {
    match cur() {
        Some((ex, _)) => lock(&ex).schedule(),
        None => Vec::new(),
    }
}

/// Attach a free-form note to the current execution (returned in `Run::notes`).
pub fn note(s: String) {
    if let Some((ex, _)) = cur() {
        lock(&ex).notes.push(s);
    }
}

// ------------------------------------------------------------------------------------------------
// OS-thread pool: logical thread i of every execution runs on pool thread i (creating and
// destroying OS threads per execution dominated the cost of an execution).

pub(crate) mod pool {
    use std::sync::Mutex;
    use std::sync::mpsc::{Sender, channel};

    pub type Job = Box<dyn FnOnce() + Send + 'static>;
    static POOL: Mutex<Vec<Option<Sender<Job>>>> = Mutex::new(Vec::new());

    pub fn submit(idx: usize, job: Job) {
        let mut p = POOL.lock().unwrap_or_else(|e| e.into_inner());
        while p.len() <= idx {
            p.push(None);
        }
        if p[idx].is_none() {
            let (tx, rx) = channel::<Job>();
            std::thread::Builder::new()
                .name(format!("ctl-pool-{idx}"))
                .stack_size(super::default_stack())
                .spawn(move || {
                    while let Ok(job) = rx.recv() {
                        job();
                    }
                })
                .expect("ctl: spawn pool thread");
            p[idx] = Some(tx);
        }
        let mut job = Some(job);
        if let Some(tx) = &p[idx] {
            if let Err(e) = tx.send(job.take().unwrap()) {
                // worker died (should not happen): recreate once
                job = Some(e.0);
            }
        }
        if let Some(j) = job {
            p[idx] = None;
            drop(p);
            submit(idx, j);
        }
    }

    /// Forget all pool threads (after a failed execution some of them are parked forever).
    pub fn reset() {
        let mut p = POOL.lock().unwrap_or_else(|e| e.into_inner());
        p.clear();
    }
}

#[derive(Clone, Debug)]
pub struct Config {
    /// preemption bound (iterative context bounding)
    pub bound: u32,
    /// explore only the subtrees whose root index is congruent to .0 modulo .1
    pub partition: Option<(usize, usize)>,
    /// default-schedule executions run before the search (process-global lazies)
    pub warmup: u32,
    pub max_schedules: Option<u64>,
    pub time_cap: Option<Duration>,
    /// scheduling points per execution before "livelock" (default 50_000)
    pub step_bound: usize,
    /// wall-clock seconds without completion before an execution counts as hung
    pub hang_secs: u64,
    pub stack_size: usize,
}

impl Default for Config {
    fn default() -> Self {
        Config {
            bound: 2,
            partition: None,
            warmup: 3,
            max_schedules: None,
            time_cap: None,
            step_bound: 50_000,
            hang_secs: 300,
            stack_size: std::env::var("CTL_STACK_KB").ok().and_then(|s| s.parse::<usize>().ok()).map(|k| k << 10).unwrap_or(1 << 20),
        }
    }
}

#[derive(Clone, Debug, Default)]
pub struct Report {
    pub schedules: u64,
    /// search-tree nodes (decision points not shared with the previous execution)
    pub states: u64,
    /// total scheduling decisions executed
    pub transitions: u64,
    pub max_points: usize,
    pub max_preemptions_used: u32,
    pub failure: Option<Failure>,
    pub cap_hit: bool,
    pub roots_total: usize,
    pub roots_mine: usize,
}

struct Run {
    rec: Vec<(u32, u32)>,
    failure: Option<Failure>,
}

fn run_once(body: &Arc<dyn Fn() + Send + Sync>, plan: Vec<(u32, u32)>, cfg: &Config) -> Run {
    let ex = Arc::new(Exec {
        st: Mutex::new(State {
            threads: vec![Th { pending: Pending::None, finished: false, cv: Arc::new(Condvar::new()), name: "root".into() }],
            current: 0,
            held: HashMap::new(),
            plan,
            rec: Vec::new(),
            preempt: 0,
            bound: cfg.bound,
            steps: 0,
            step_bound: cfg.step_bound,
            failure: None,
            all_done: false,
            notes: Vec::new(),
        }),
        done: Condvar::new(),
    });
    let ex2 = ex.clone();
    let body2 = body.clone();
    pool::submit(
        0,
        Box::new(move || {
            enter_thread(&ex2, 0);
            let r = std::panic::catch_unwind(std::panic::AssertUnwindSafe(|| body2()));
            if let Err(p) = r {
                let message = if let Some(s) = p.downcast_ref::<String>() {
                    s.clone()
                } else if let Some(s) = p.downcast_ref::<&'static str>() {
                    s.to_string()
                } else {
                    "<non-string panic payload>".into()
                };
                let mut st = lock(&ex2);
                if st.failure.is_none() {
                    let schedule = st.schedule();
                    st.failure = Some(Failure::RootPanic { schedule, message });
                }
                ex2.done.notify_all();
                drop(st);
                CUR.with(|c| *c.borrow_mut() = None);
                return;
            }
            finish_thread(&ex2, 0);
            CUR.with(|c| *c.borrow_mut() = None);
        }),
    );
    let mut st = lock(&ex);
    let deadline = Duration::from_secs(cfg.hang_secs);
    let mut last_steps = st.steps;
    loop {
        if st.all_done || st.failure.is_some() {
            break;
        }
        let (g, to) = ex.done.wait_timeout(st, deadline).unwrap_or_else(|e| e.into_inner());
        st = g;
        if to.timed_out() && !st.all_done && st.failure.is_none() {
            if st.steps == last_steps {
                let schedule = st.schedule();
                st.failure = Some(Failure::Hang { schedule });
                break;
            }
            last_steps = st.steps;
        }
    }
    let run = Run { rec: st.rec.clone(), failure: st.failure.clone() };
    let ok = st.all_done && st.failure.is_none();
    drop(st);
    if !ok {
        pool::reset();
    }
    run
}

/// Replay one schedule (choices only). Returns the failure, if any.
pub fn replay<F>(body: F, schedule: &[u32], bound: u32) -> Option<Failure>
where
    F: Fn() + Send + Sync + 'static,
{
    let body: Arc<dyn Fn() + Send + Sync> = Arc::new(body);
    let cfg = Config { bound, ..Config::default() };
    let plan = schedule.iter().map(|c| (*c, 0)).collect();
    run_once(&body, plan, &cfg).failure
}

/// Enumerate every schedule of `body` with at most `cfg.bound` preemptions, depth-first by
/// re-execution. The body reports property violations through its own channel; `Report.failure`
/// carries engine-level failures (deadlock, livelock, nondeterminism, escaped panic), at which the
/// search stops.
pub fn explore<F>(cfg: Config, body: F) -> Report
where
    F: Fn() + Send + Sync + 'static,
{
    let body: Arc<dyn Fn() + Send + Sync> = Arc::new(body);
    let start = Instant::now();
    let mut rep = Report::default();
    for _ in 0..cfg.warmup {
        let r = run_once(&body, Vec::new(), &cfg);
        if let Some(f) = r.failure {
            rep.failure = Some(f);
            return rep;
        }
    }
    let (part, nparts) = cfg.partition.unwrap_or((0, 1));
    let base = run_once(&body, Vec::new(), &cfg);
    if let Some(f) = base.failure {
        rep.failure = Some(f);
        rep.schedules = 1;
        return rep;
    }
    if part == 0 {
        rep.schedules += 1;
        rep.states += base.rec.len() as u64;
        rep.transitions += base.rec.len() as u64;
        rep.max_points = base.rec.len();
    }
    let mut roots: Vec<(usize, u32)> = Vec::new();
    for (j, (_c, n)) in base.rec.iter().enumerate() {
        for alt in 1..*n {
            roots.push((j, alt));
        }
    }
    rep.roots_total = roots.len();
    'roots: for (r, (j, alt)) in roots.iter().enumerate() {
        if r % nparts != part {
            continue;
        }
        rep.roots_mine += 1;
        let mut plan: Vec<(u32, u32)> = base.rec[..*j].to_vec();
        plan.push((*alt, base.rec[*j].1));
        let floor = *j + 1;
        loop {
            let plan_len = plan.len();
            let run = run_once(&body, plan, &cfg);
            rep.schedules += 1;
            rep.transitions += run.rec.len() as u64;
            rep.states += (run.rec.len() + 1).saturating_sub(plan_len) as u64;
            rep.max_points = rep.max_points.max(run.rec.len());
            if let Some(f) = run.failure {
                rep.failure = Some(f);
                return rep;
            }
            if let Some(m) = cfg.max_schedules {
                if rep.schedules >= m {
                    rep.cap_hit = true;
                    break 'roots;
                }
            }
            if let Some(t) = cfg.time_cap {
                if start.elapsed() > t {
                    rep.cap_hit = true;
                    break 'roots;
                }
            }
            // backtrack
            let mut rec = run.rec;
            loop {
                if rec.len() <= floor {
                    continue 'roots;
                }
                let (c, n) = rec[rec.len() - 1];
                if c + 1 < n {
                    let l = rec.len();
                    rec[l - 1] = (c + 1, n);
                    break;
                }
                rec.pop();
            }
            plan = rec;
        }
    }
    rep
}

// --- crate-internal re-exports with opaque handles -----------------------------------------------

pub struct ExecHandle(pub(crate) Arc<Exec>);

impl Clone for ExecHandle {
    fn clone(&self) -> Self {
        ExecHandle(self.0.clone())
    }
}

pub(crate) fn cur_pub() -> Option<ExecHandle> {
    cur().map(|(e, _)| ExecHandle(e))
}
pub(crate) fn cur_index_pub() -> Option<usize> {
    cur_index()
}
pub(crate) fn register_thread_pub(ex: &ExecHandle, name: String) -> usize {
    register_thread(&ex.0, name)
}
pub(crate) fn enter_thread_pub(ex: &ExecHandle, me: usize) {
    enter_thread(&ex.0, me)
}
pub(crate) fn finish_thread_pub(ex: &ExecHandle, me: usize) {
    finish_thread(&ex.0, me);
    CUR.with(|c| *c.borrow_mut() = None);
}
/// Bookkeeping for a successful `try_lock`.
pub(crate) fn note_acquired(addr: usize) {
    if let Some((ex, me)) = cur() {
        lock(&ex).held.insert(addr, me);
    }
}

pub(crate) fn default_stack() -> usize {
    static S: std::sync::OnceLock<usize> = std::sync::OnceLock::new();
    *S.get_or_init(|| std::env::var("CTL_STACK_KB").ok().and_then(|s| s.parse::<usize>().ok()).map(|k| k << 10).unwrap_or(1 << 20))
}
