#!/bin/bash
# usage: save_seed.sh <ID> <name> <suffix-or-empty> "<needs>" "<caught by>" "<ran>"
ID="$1"; NAME="$2"; SUF="$3"; NEEDS="$4"; CAUGHT="$5"; RAN="$6"
D=/verif/seeded/$NAME; mkdir -p $D
cp /tmp/seed-$ID$SUF-out/patch.diff $D/patch.diff
cp /tmp/seed-$ID$SUF-out/demo.rs $D/demo.rs
cp /tmp/seed-$ID$SUF-out/notes.md $D/agent_notes.md 2>/dev/null
python3 - "$ID" "$NEEDS" "$CAUGHT" "$RAN" > $D/meta.json <<'PY'
import json,sys
print(json.dumps({"breaks_property": sys.argv[1], "needs_to_manifest": sys.argv[2], "detected_by": sys.argv[3], "what_was_run": sys.argv[4],
 "origin": "independent sub-agent given only the property text and a scratch worktree"}, indent=1))
PY
git -C /repo worktree remove --force /tmp/seed-$ID$SUF 2>/dev/null; rm -rf /tmp/seed-$ID$SUF /tmp/seed-$ID$SUF-out
echo saved $D
