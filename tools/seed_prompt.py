#!/usr/bin/env python3
import json, sys
pid = sys.argv[1]
suf = sys.argv[2] if len(sys.argv) > 2 else ""
avoid = sys.argv[3] if len(sys.argv) > 3 else ""
rec = None
for l in open('/verif/properties.jsonl'):
    p = json.loads(l)
    if p['id'] == pid:
        rec = p
wt = f"/tmp/seed-{pid}{suf}"
out = f"/tmp/seed-{pid}{suf}-out"
print(f"""You are helping to evaluate a verification effort for the Rust crate salsa (incremental computation framework), pinned at the commit checked out in /repo. Your job: produce ONE realistic, subtle code change to salsa that BREAKS the semantic property below, while the crate still compiles and its existing test suite still passes. This is authorized defect-seeding (mutation testing) in a sealed sandbox; nothing you write is ever merged.

PROPERTY {pid} — {rec['title']}
{rec['statement']}

Work ONLY in your own scratch git worktree (never edit /repo itself, never look at or touch /verif):
  git -C /repo worktree add --detach {wt} HEAD
  cd {wt}
  export CARGO_TARGET_DIR={wt}/target CARGO_NET_OFFLINE=true     # the sandbox has no network; always pass --offline to cargo
Read the relevant salsa source under {wt}/src (and tests/ for usage examples) to find a good place.

Requirements for the change:
 1. It must be a plausible mistake or "optimisation" in salsa's own source (src/ or components/), small (a few lines, ideally 1-15), not a deliberate sabotage marker, no new cfg flags, no test edits.
 2. It must need something SPECIFIC to manifest — a particular multi-step sequence of operations, a particular combination of durabilities/values, a particular thread interleaving, an unusual input, or two cooperating sites — NOT something ordinary use exposes at once.
 3. The crate must still compile and the existing suite must still pass with the change. Verify with:
      cd {wt} && cargo nextest run --workspace --no-fail-fast --tool-config-file pb:/w/lib/nextest.toml --profile pb --test-threads 8 --offline
    (fallback if nextest misbehaves: cargo test --workspace --no-fail-fast --offline). All ~280 tests must pass. If some test fails with your change, pick a different/more subtle change.
 4. Write a demonstration: a new integration test file {wt}/tests/seed_{pid.lower()}_demo.rs (plain salsa API, like the other files in tests/; `#![cfg(feature = "inventory")]` at the top like they do) that FAILS with your change and PASSES without it. Check both: run it with the change applied (`cargo test --offline --test seed_{pid.lower()}_demo`), then save the src change with `git diff -- src components > {out}/patch.diff`, undo it with `git apply -R {out}/patch.diff` (keep the test file), run again to see it pass, then re-apply with `git apply {out}/patch.diff`. Do NOT use `git stash` (the stash is shared between worktrees).
    If the demonstration needs threads, use std threads with salsa's normal (non-shuttle) build and make it deterministic with the signalling style used in tests/parallel (or loop over many iterations if a race is needed, and say so).
 5. Save the results:
      mkdir -p {out}   (do this first)
      git -C {wt} diff -- src components > {out}/patch.diff          (ONLY the salsa source change, not the test)
      cp {wt}/tests/seed_{pid.lower()}_demo.rs {out}/demo.rs
      write {out}/notes.md: which property it breaks and why, what exactly is needed for it to manifest (sequence / interleaving / inputs), the commands you ran and their outcomes (suite pass count with the change, demo fails with / passes without).
 6. Leave the worktree in place (do not remove it); do not commit anything.

{('Earlier rounds already produced changes of these kinds for this property; choose a DIFFERENT mechanism and different functions: ' + avoid) if avoid else ''}

Be economical: build once, iterate on small edits. If after a few attempts you cannot find a change that keeps the suite green, report the best attempt and say exactly which tests fail. Final answer: a short summary (file and lines changed, what is needed to trigger it, test results).""")
