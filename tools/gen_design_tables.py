#!/usr/bin/env python3
"""Rewrites the generated region of DESIGN.md (coverage of the last runs, known findings, seeded
changes) from evidence/*.json, known_findings.json and seeded/*/meta.json."""
import json, glob, os, re
ROOT = os.path.dirname(os.path.dirname(os.path.abspath(__file__)))

def fmt(n):
    return f"{n:,}".replace(",", " ")

out = []
out.append("### 10.1 Coverage of the last run of every check (from `evidence/*.json`)\n")
out.append("| id | tier | config | executions of real code | states | checks vs reference | outcome classes | complete within bounds | wall s |")
out.append("|---|---|---|---|---|---|---|---|---|")
for f in sorted(glob.glob(os.path.join(ROOT, "evidence", "C*.json"))):
    e = json.load(open(f)); c = e["coverage"]
    out.append(f"| {e['property_id']} | {e['tier']} | {c.get('config','')} | {fmt(c.get('traces_validated_against_impl',0))} | {fmt(c.get('states',0))} | {fmt(c.get('checks_against_reference',0))} | {len(c.get('outcome_classes',{}))} | {'yes' if c.get('exhaustive') else 'NO (cap hit)'} | {e.get('wall_s',0):.1f} |")
out.append("")
out.append("### 10.2 Known findings file (`known_findings.json`)\n")
k = json.load(open(os.path.join(ROOT, "known_findings.json")))
for e in k:
    n = len(e.get("inputs", []))
    scope = f"{n} listed inputs" if n else "identified by call site / class (no input list)"
    tag = "fixed " + (e.get("commit") or "") if e["status"] == "fixed" else "open"
    out.append(f"* **{e['signature_prefix']}** ({tag}; {scope}) — {e['what']}")
out.append("")
out.append("### 10.3 Seeded changes (`seeded/*/`) and the checks that catch them\n")
out.append("| change | breaks | needs to manifest | caught by |")
out.append("|---|---|---|---|")
for d in sorted(glob.glob(os.path.join(ROOT, "seeded", "*"))):
    mp = os.path.join(d, "meta.json")
    if not os.path.exists(mp):
        continue
    m = json.load(open(mp))
    out.append(f"| `{os.path.basename(d)}` | {m.get('breaks_property','')} | {m.get('needs_to_manifest','').replace('|','/')} | {m.get('detected_by','').replace('|','/')} |")
out.append("")
text = "\n".join(out)
p = os.path.join(ROOT, "DESIGN.md")
s = open(p).read()
b, e_ = "<!-- BEGIN GENERATED (tools/gen_design_tables.py) -->", "<!-- END GENERATED -->"
if b in s:
    s = s[:s.index(b) + len(b)] + "\n" + text + "\n" + s[s.index(e_):]
else:
    s += "\n" + b + "\n" + text + "\n" + e_ + "\n"
open(p, "w").write(s)
print("DESIGN.md tables regenerated")
