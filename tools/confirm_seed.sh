#!/bin/bash
# Confirm a seeded change produced by a sub-agent: suite green with the change, demo red with / green without.
# usage: confirm_seed.sh <ID> [suffix]
set -u
ID="$1"; SUF="${2:-}"
WT=/tmp/seed-$ID$SUF; OUT=/tmp/seed-$ID$SUF-out
lid=$(echo "$ID" | tr 'A-Z' 'a-z')
export CARGO_TARGET_DIR=$WT/target CARGO_NET_OFFLINE=true
cd $WT || exit 2
echo "== diff in worktree"; git diff --stat -- src components
DEMO=$(ls tests/seed_${lid}*demo*.rs 2>/dev/null | head -1)
[ -n "$DEMO" ] || { echo "no demo file"; exit 2; }
T=$(basename $DEMO .rs)
echo "== suite with the change (expect 280 baseline tests passing, demo failing)"
cargo nextest run --workspace --no-fail-fast --tool-config-file pb:/w/lib/nextest.toml --profile pb --test-threads 8 --offline 2>&1 | grep -E "Summary|FAIL " | sort | uniq | head -12
echo "== demo without the change"
git diff -- src components > $OUT/.confirm.patch
git apply -R $OUT/.confirm.patch
cargo test --offline ${SEED_FEATURES:+--features $SEED_FEATURES} --test $T 2>&1 | grep -E "^test result|passed|failed" | head -3
git apply $OUT/.confirm.patch
git diff --stat -- src components | tail -1
