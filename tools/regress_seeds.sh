#!/bin/bash
# Development aid: apply every stored seeded change to /repo in turn and run the quick check that
# is recorded as catching it; report whether it still does. /repo is restored after each.
cd "$(dirname "$0")/.."
git -C /repo status --short | grep -q . && { echo "/repo is dirty"; exit 2; }
for d in seeded/*/; do
  name=$(basename "$d")
  ids=$(python3 - "$d/meta.json" <<'PY'
import json,re,sys
m=json.load(open(sys.argv[1]))
t=m["detected_by"]
if t.startswith("NOT CAUGHT"): print("NONE")
else:
    ids=re.findall(r"(C\d\d) quick", t)
    print(ids[0] if ids else "NONE")
PY
)
  if [ "$ids" = "NONE" ]; then echo "$name: recorded as not caught - skipped"; continue; fi
  git -C /repo apply "$PWD/$d/patch.diff" || { echo "$name: patch does not apply"; continue; }
  out=$(./check $ids quick 2>&1); rc=$?
  git -C /repo checkout -- .
  echo "$name: $ids rc=$rc $(echo "$out" | grep -c '^VIOLATION') violation lines"
done
# (replay files written by these runs are left in place)
git -C /repo status --short
