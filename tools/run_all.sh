#!/bin/bash
# Development aid: run every registered check of a tier in sequence, log exit code and time.
#   tools/run_all.sh quick|thorough [ID...]
cd "$(dirname "$0")/.."
TIER="${1:-quick}"; shift
IDS="$*"
[ -n "$IDS" ] || IDS="$(python3 -c "import json;print(' '.join(c['property_id'] for c in json.load(open('MANIFEST.json'))['checks']))")"
LOG="target/run_all-$TIER.log"
mkdir -p target
for id in $IDS; do
  s=$(date +%s)
  out=$(./check "$id" "$TIER" 2>&1)
  rc=$?
  e=$(date +%s)
  last=$(echo "$out" | grep -E "^$id $TIER:" | tail -2 | tr '\n' ' ')
  viol=$(echo "$out" | grep -c "^VIOLATION")
  echo "$id rc=$rc t=$((e-s))s viol_lines=$viol :: $last" | tee -a "$LOG"
done
