#!/usr/bin/env python3
"""Merge the per-configuration evidence parts of one property into evidence/<id>.json."""
import json, sys, os
root = os.path.dirname(os.path.dirname(os.path.abspath(__file__)))
pid, cfgs = sys.argv[1], sys.argv[2:]
parts = []
for c in cfgs:
    p = os.path.join(root, "evidence", "parts", f"{pid}.{c}.json")
    if not os.path.exists(p):
        print(f"MACHINERY: evidence part {p} missing", file=sys.stderr)
        sys.exit(2)
    parts.append((c, json.load(open(p))))
first = parts[0][1]
cov = {"states": 0, "transitions": 0, "traces_validated_against_impl": 0, "evaluations": 0, "distinct_nontrivial": 0,
       "checks_against_reference": 0, "samples": [], "exhaustive": True, "cap_hit": False, "parts": {}}
rules = []
for c, e in parts:
    k = e["coverage"]
    for f in ("states", "transitions", "traces_validated_against_impl", "evaluations", "distinct_nontrivial", "checks_against_reference"):
        cov[f] += k.get(f, 0)
    cov["samples"] += k.get("samples", [])[:3]
    cov["exhaustive"] = cov["exhaustive"] and k.get("exhaustive", False)
    cov["cap_hit"] = cov["cap_hit"] or k.get("cap_hit", False)
    rules.append(f"[{c}] " + k.get("rule", ""))
    cov["parts"][c] = {x: k.get(x) for x in ("engine", "config", "bounds", "outcome_classes", "nonvacuity", "maxima", "known_findings_matched", "states", "transitions", "traces_validated_against_impl")}
cov["rule"] = " ".join(rules)
out = {"property_id": pid, "tier": first["tier"], "seed": first["seed"], "level": first["level"], "coverage": cov,
       "assumptions": sorted({a for _, e in parts for a in e.get("assumptions", [])}),
       "wall_s": sum(e.get("wall_s", 0) for _, e in parts), "violations": sum(e.get("violations", 0) for _, e in parts)}
json.dump(out, open(os.path.join(root, "evidence", f"{pid}.json"), "w"), indent=1)
