#!/bin/bash
# Apply a seeded change to /repo, run the given checks (quick), restore /repo.
# usage: run_seed.sh <patch.diff> <check ids...>
P="$1"; shift
cd /verif
git -C /repo status --short | grep -q . && { echo "/repo is dirty"; exit 2; }
git -C /repo apply "$P" || { echo "patch does not apply"; exit 2; }
for c in "$@"; do
  out=$(./check $c quick 2>&1); rc=$?
  echo "--- $c rc=$rc: $(echo "$out" | grep -c '^VIOLATION') violation lines; $(echo "$out" | grep -E "^$c quick" | cut -c1-160)"
  echo "$out" | grep -A1 '^VIOLATION' | head -4 | cut -c1-260
done
git -C /repo checkout -- . 
git -C /repo status --short
find /verif/replays -path /verif/replays/known -prune -o -name '*.json' -newer "$P" -type f -exec rm -f {} + 2>/dev/null
