#![cfg(all(feature = "persistence", feature = "inventory"))]

//! A persisted query that performed an untracked read must keep re-executing in every new
//! revision after the database has been restored, exactly like it does in the original database.
//!
//! Run with: cargo test --offline --features persistence --test seed_c26_demo

use std::sync::atomic::{AtomicUsize, Ordering};

use salsa::Setter;

#[salsa::input(persist)]
struct MyInput {
    #[returns(copy)]
    field: usize,
}

/// State outside of the database, only visible through an untracked read.
static EXTERNAL: AtomicUsize = AtomicUsize::new(0);
static EXECUTIONS: AtomicUsize = AtomicUsize::new(0);

#[salsa::tracked(returns(copy), persist)]
fn reads_external(db: &dyn salsa::Database, input: MyInput) -> usize {
    EXECUTIONS.fetch_add(1, Ordering::SeqCst);
    db.report_untracked_read();
    input.field(db) + EXTERNAL.load(Ordering::SeqCst)
}

#[test]
fn restored_untracked_query_reexecutes_after_write() {
    let mut db = salsa::DatabaseImpl::default();

    let input = MyInput::new(&db, 1);
    let unrelated = MyInput::new(&db, 100);

    EXTERNAL.store(10, Ordering::SeqCst);
    assert_eq!(reads_external(&db, input), 11);
    assert_eq!(EXECUTIONS.load(Ordering::SeqCst), 1);

    // Sanity check of the reference behaviour on the original database: any new revision
    // forces the untracked query to run again.
    unrelated.set_field(&mut db).to(101);
    EXTERNAL.store(20, Ordering::SeqCst);
    assert_eq!(reads_external(&db, input), 21);
    assert_eq!(EXECUTIONS.load(Ordering::SeqCst), 2);

    let serialized =
        serde_json::to_string_pretty(&<dyn salsa::Database>::as_serialize(&mut db)).unwrap();

    let mut restored = salsa::DatabaseImpl::default();
    <dyn salsa::Database>::deserialize(
        &mut restored,
        &mut serde_json::Deserializer::from_str(&serialized),
    )
    .unwrap();

    // Same revision as when it was persisted: the result is reused without re-execution.
    assert_eq!(reads_external(&restored, input), 21);
    assert_eq!(EXECUTIONS.load(Ordering::SeqCst), 2);

    // A write to an unrelated input starts a new revision in the restored database.
    unrelated.set_field(&mut restored).to(102);
    EXTERNAL.store(30, Ordering::SeqCst);

    // From-scratch result is 1 + 30; the untracked query has to run again.
    assert_eq!(reads_external(&restored, input), 31);
    assert_eq!(EXECUTIONS.load(Ordering::SeqCst), 3);
}
