#![cfg(feature = "inventory")]

//! A tracked function that also performs an untracked read creates one tracked struct
//! per unit of its input. When it re-executes and creates fewer structs, the structs it
//! no longer creates must be discarded (no longer enumerated), exactly as for a function
//! without untracked reads.

use salsa::Setter;
use salsa::plumbing::ZalsaDatabase;

#[salsa::input]
struct Input {
    #[returns(copy)]
    count: u32,
}

#[salsa::tracked]
struct Entity<'db> {
    #[returns(copy)]
    value: u32,
}

#[salsa::tracked(returns(copy))]
fn entity_double(db: &dyn salsa::Database, entity: Entity<'_>) -> u32 {
    entity.value(db) * 2
}

#[salsa::tracked(returns(copy))]
fn make_entities(db: &dyn salsa::Database, input: Input) -> u32 {
    // e.g. the function consults something outside of the database (a clock, a file...).
    db.report_untracked_read();
    (0..input.count(db))
        .map(|i| entity_double(db, Entity::new(db, i)))
        .sum()
}

#[test]
fn dropped_structs_of_untracked_creator_are_discarded() {
    let mut db = salsa::DatabaseImpl::default();
    let input = Input::new(&db, 3);

    assert_eq!(make_entities(&db, input), 6);
    assert_eq!(Entity::ingredient(&db).entries(db.zalsa()).count(), 3);

    input.set_count(&mut db).to(1);
    assert_eq!(make_entities(&db, input), 0);

    // Entities 1 and 2 are no longer created: they must be gone.
    assert_eq!(Entity::ingredient(&db).entries(db.zalsa()).count(), 1);

    input.set_count(&mut db).to(0);
    assert_eq!(make_entities(&db, input), 0);
    assert_eq!(Entity::ingredient(&db).entries(db.zalsa()).count(), 0);
}
