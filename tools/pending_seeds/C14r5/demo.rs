#![cfg(feature = "inventory")]

//! C14 demo: a cycle through functions WITHOUT cycle handling that spans six threads.
//!
//! Thread `i` executes `step(i)`, which calls `step((i + 1) % N)`. The calls are sequenced so that
//! threads 0..N-1 form a wait chain `T0 -> T1 -> ... -> T(N-1)` before the last thread closes the
//! cycle by calling `step(0)`. Every request must panic (cycle error on the closing thread,
//! propagated-panic cancellation on the waiting ones); nothing may hang. Afterwards the database
//! must still be usable and, once the input breaks the cycle, `step` returns correct values.

use std::sync::atomic::{AtomicUsize, Ordering};
use std::sync::mpsc;
use std::sync::Arc;
use std::time::{Duration, Instant};

use salsa::Setter;

const N: u32 = 6;

#[salsa::input]
struct Config {
    /// If true, `step(N-1)` calls `step(0)` (closing the cycle); otherwise it returns 1.
    cyclic: bool,
}

#[salsa::interned]
struct Idx<'db> {
    i: u32,
}

#[salsa::db]
#[derive(Clone, Default)]
struct Db {
    storage: salsa::Storage<Self>,
    started: Arc<AtomicUsize>,
    sequenced: bool,
}

#[salsa::db]
impl salsa::Database for Db {}

#[salsa::db]
trait DemoDb: salsa::Database {
    fn started(&self) -> &AtomicUsize;
    fn sequenced(&self) -> bool;
}

#[salsa::db]
impl DemoDb for Db {
    fn started(&self) -> &AtomicUsize {
        &self.started
    }
    fn sequenced(&self) -> bool {
        self.sequenced
    }
}

fn wait_until(what: &str, f: impl Fn() -> bool) {
    let start = Instant::now();
    while !f() {
        assert!(
            start.elapsed() < Duration::from_secs(20),
            "timed out: {what}"
        );
        std::thread::sleep(Duration::from_millis(2));
    }
}

#[salsa::tracked(returns(copy))]
fn step<'db>(db: &'db dyn DemoDb, cfg: Config, idx: Idx<'db>) -> u32 {
    let i = *idx.i(db);
    let cyclic = *cfg.cyclic(db);

    if db.sequenced() {
        // Everybody holds the claim on its own `step(i)` before anyone calls the next one.
        db.started().fetch_add(1, Ordering::SeqCst);
        wait_until("all threads started", || {
            db.started().load(Ordering::SeqCst) >= N as usize
        });
        // Thread N-2 blocks first, then N-3, ..., then 0; thread N-1 closes the cycle last.
        let rank = if i == N - 1 { N } else { N - 1 - i };
        std::thread::sleep(Duration::from_millis(150 * rank as u64));
    }

    if i == N - 1 {
        if cyclic {
            step(db, cfg, Idx::new(db, 0)) + 1
        } else {
            1
        }
    } else {
        step(db, cfg, Idx::new(db, i + 1)) + 1
    }
}

#[salsa::tracked(returns(copy))]
fn unrelated(db: &dyn salsa::Database, cfg: Config) -> u32 {
    if *cfg.cyclic(db) { 10 } else { 20 }
}

#[test]
fn six_thread_cycle_panics_instead_of_hanging() {
    let mut db = Db {
        sequenced: true,
        ..Db::default()
    };
    let cfg = Config::new(&db, true);

    let (tx, rx) = mpsc::channel::<(u32, bool)>();
    for i in 0..N {
        let db = db.clone();
        let tx = tx.clone();
        std::thread::spawn(move || {
            let result = std::panic::catch_unwind(std::panic::AssertUnwindSafe(|| {
                step(&db, cfg, Idx::new(&db, i))
            }));
            drop(db);
            let _ = tx.send((i, result.is_err()));
        });
    }
    drop(tx);

    let mut finished = 0;
    while finished < N {
        match rx.recv_timeout(Duration::from_secs(15)) {
            Ok((i, panicked)) => {
                assert!(panicked, "step({i}) returned a value although it is part of a cycle");
                finished += 1;
            }
            Err(_) => panic!(
                "HANG: only {finished} of {N} cyclic requests finished; the rest are deadlocked"
            ),
        }
    }

    // The database stays usable.
    db.sequenced = false;
    assert_eq!(unrelated(&db, cfg), 10);

    // Break the cycle: the formerly cyclic functions now return correct values.
    cfg.set_cyclic(&mut db).to(false);
    assert_eq!(unrelated(&db, cfg), 20);
    assert_eq!(step(&db, cfg, Idx::new(&db, 0)), N);
    assert_eq!(step(&db, cfg, Idx::new(&db, N - 1)), 1);
}
