#![cfg(feature = "inventory")]

//! C17: a tracked function body runs at most once per key per revision,
//! no matter how many handles request it.
//!
//! Needed sequence: the function has a memo from an earlier revision, its input
//! changes so that it re-executes, and the new value is EQUAL to the old one
//! (so the result is backdated). Every further request in that same revision
//! (from this handle or any other) must reuse the memo.

use std::sync::atomic::{AtomicUsize, Ordering};

use salsa::Setter;

static HALF_RUNS: AtomicUsize = AtomicUsize::new(0);

#[salsa::input]
struct Number {
    value: u32,
}

#[salsa::tracked]
fn half(db: &dyn salsa::Database, n: Number) -> u32 {
    HALF_RUNS.fetch_add(1, Ordering::SeqCst);
    n.value(db) / 2
}

#[test]
fn backdated_result_is_reused_by_all_handles_in_the_same_revision() {
    let mut db = salsa::DatabaseImpl::new();
    let n = Number::new(&db, 2);

    // Revision 1: first execution.
    assert_eq!(*half(&db, n), 1);
    assert_eq!(*half(&db, n), 1);
    assert_eq!(HALF_RUNS.load(Ordering::SeqCst), 1);

    // Revision 2: the input changes but `half` yields an equal value => backdated.
    n.set_value(&mut db).to(3);
    HALF_RUNS.store(0, Ordering::SeqCst);

    assert_eq!(*half(&db, n), 1);
    assert_eq!(HALF_RUNS.load(Ordering::SeqCst), 1, "one execution in revision 2");

    // Same handle, same revision: must be a plain memo hit.
    assert_eq!(*half(&db, n), 1);

    // Other handles on other threads, same revision: must reuse the result too.
    let handles: Vec<_> = (0..4)
        .map(|_| {
            let db = db.clone();
            std::thread::spawn(move || *half(&db, n))
        })
        .collect();
    for h in handles {
        assert_eq!(h.join().unwrap(), 1);
    }

    assert_eq!(
        HALF_RUNS.load(Ordering::SeqCst),
        1,
        "`half(n)` executed more than once in a single revision"
    );
}
