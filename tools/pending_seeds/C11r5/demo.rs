#![cfg(all(feature = "inventory", feature = "accumulator"))]

//! A query whose inputs all have `Durability::NEVER_CHANGE` and that pushes no
//! values itself, but calls another query that does, must still contribute the
//! values of its callees to `accumulated` of its callers.

use salsa::{Accumulator, Database, Durability};

#[salsa::input]
struct MyInput {
    #[returns(copy)]
    value: u32,
}

#[salsa::accumulator]
#[derive(Debug, PartialEq, Eq, Clone)]
struct Log(u32);

#[salsa::tracked(returns(copy))]
fn leaf(db: &dyn Database, input: MyInput) -> u32 {
    let v = input.value(db);
    Log(v).accumulate(db);
    v
}

/// Pushes nothing itself, only forwards to `leaf`.
#[salsa::tracked(returns(copy))]
fn middle(db: &dyn Database, input: MyInput) -> u32 {
    leaf(db, input) + 1
}

#[salsa::tracked(returns(copy))]
fn outer(db: &dyn Database, input: MyInput) -> u32 {
    middle(db, input) + 1
}

fn logs(db: &dyn Database, input: MyInput) -> Vec<Log> {
    outer::accumulated::<Log>(db, input)
        .into_iter()
        .cloned()
        .collect()
}

#[test]
fn never_change_middle_query_forwards_accumulated_values() {
    let mut db = salsa::DatabaseImpl::default();
    let input = MyInput::builder(10)
        .durability(Durability::NEVER_CHANGE)
        .new(&db);

    // Sanity: the direct parent of the pushing query sees the value.
    let direct: Vec<Log> = middle::accumulated::<Log>(&db, input)
        .into_iter()
        .cloned()
        .collect();
    assert_eq!(direct, vec![Log(10)]);

    // From-scratch execution of `outer`.
    assert_eq!(logs(&db, input), vec![Log(10)]);

    // And again after the memos were verified in a new revision.
    db.synthetic_write(Durability::LOW);
    assert_eq!(logs(&db, input), vec![Log(10)]);
}

#[test]
fn same_shape_with_low_durability_is_fine() {
    let mut db = salsa::DatabaseImpl::default();
    let input = MyInput::new(&db, 7);
    assert_eq!(logs(&db, input), vec![Log(7)]);
    db.synthetic_write(Durability::LOW);
    assert_eq!(logs(&db, input), vec![Log(7)]);
}
