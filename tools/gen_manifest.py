#!/usr/bin/env python3
"""Generates /verif/MANIFEST.json. Edit BUILT / texts here, then run it."""
import json, os

ROOT = os.path.dirname(os.path.dirname(os.path.abspath(__file__)))

# property id -> (engine, technique, level text, level note, design ref)
E1 = "E1 histx"
E2 = "E2 ctl"
CHECKS = {
 "C01": (E1, "bounded-exhaustive enumeration of operation histories on the real database, compared step-by-step with a reference interpreter and a fresh-database differential",
         "All histories up to the stated depth over a forced-collision alphabet (2 cells x 2 values, synthetic writes, untracked changes, every node as entry) for every listed 3-4 node program are executed on a fresh real database; after every operation the result must equal the memo-free reference interpreter, and a second fresh database holding the same inputs must agree. A coverage statement over programs x histories, which the fixed-scenario tests cannot give.",
         "Bounded (3-4 nodes, depth 4-5, binary value domains). Trusts the reference interpreter ql/src/refm.rs; second oracle is salsa itself on a fresh database.", "5/C01"),
 "C02": (E1, "bounded-exhaustive history enumeration with durability-changing writes against reference + frozen-field model + fresh-database differential",
         "Every history up to the depth over writes with all four durabilities (equal and different values, raising and lowering), synthetic writes incl. NEVER_CHANGE, and requests, on programs whose inputs and code carry mixed durabilities; oracle: reference value, frozen-set model for never-change writes (must panic, later results unchanged), final fresh-database sweep.",
         "Bounded as stated in evidence. Never-change panics are matched by message.", "5/C02"),
 "C03": (E1, "bounded-exhaustive history enumeration with an execution-justification monitor (only-if oracle on WillExecute)",
         "Every body execution observed in every history must be justified by a change the harness recorded since the function's last validation (written input field, changed callee value / no_eq / durability change, recreated tracked field, reclaimed interned value, untracked read, eviction). Exhaustive over histories, so every combination of backdating, unread-field writes and partial reuse inside the bound is covered.",
         "Only-if monitor: whatever it cannot classify counts as justified (can miss a regression, cannot invent one). Acyclic programs, no panics/cancellation.", "5/C03"),
 "C04": (E1, "bounded-exhaustive history enumeration over programs with untracked reads; must-re-execute monitor + reference values",
         "For every history over external-cell changes published by synthetic writes of LOW/MEDIUM/HIGH durability, input writes and requests: every answer of a function whose last execution read untracked state must have been produced by an execution in the same revision, values equal the reference reading the external cells as of that revision, and dependents obey the C03 justification monitor (equal value => reused).",
         "Bounded depth/programs. External state only changes together with a new revision (salsa's documented contract).", "5/C04"),
 "C05": (E1, "bounded-exhaustive history enumeration over lru programs with capacity changes and explicit eviction, against the value reference, an LRU list model and the execution-justification monitor",
         "All histories (depth 5-6, 14 operations: requests of 4 lru keys and of a caller, writes, synthetic writes, trigger_lru_eviction, set_lru_capacity 0..3) on two programs: (a) values = reference (transparency); (b) immediately after every new revision / trigger the number of cached results (Database::memory_usage, weight 1 each) is at most capacity plus the results not subject to eviction (untracked origin, or requested while eviction was disabled), and results the LRU model retains are not re-executed without another justification; (c) a result the model evicted is recomputed only inside a request of that key, never while verifying a dependent.",
         "The LRU model orders keys by fetch time (top level and from bodies), exactly the notion of 'requested'. Bounded as stated.", "5/C05"),
 "C06": (E1, "bounded-exhaustive history enumeration over struct-creating programs with an identity-map monitor, discard/enumeration checks and the C03 justification monitor",
         "Creators produce 0-3 tracked structs with identity fields taken from inputs (equal identities twice, conditional creation, an honest-hash and a colliding-hash struct type, two creators with equal identity values); for every history (depth 5-6): same (creator, identity value, occurrence) as in the previous execution => same id; ids pairwise distinct within an execution and across creators; a struct that is no longer created is discarded together with every memoized result keyed by it and is no longer enumerated; functions keyed by a struct are not re-executed when only unread fields changed.",
         "For the colliding-hash type stability is asserted only while the creation sequence is unchanged; in-place slot reuse with a new generation counts as discard. Bounded.", "5/C06"),
 "C07": (E1, "bounded-exhaustive history enumeration over slot-churning programs (conditional struct creation, interned types with revisions = 1..3, struct- and tuple-keyed functions); value reference + dead-identity monitor",
         "All histories (depth 6-7) over programs whose results are functions of the field data of structs/interned values, so aliasing changes a value: every value and field read-back equals the reference, a fresh database agrees, and no memo whose last execution read an identity that has since been reclaimed (interned slot reused, struct discarded) is ever validated as unchanged.",
         "Interned data hashes to one shard on purpose so that slot reuse is frequent. Bounded.", "5/C07"),
 "C09": (E1, "bounded-exhaustive enumeration of interning / revalidation / revision-bump histories for revisions in {1,2,3,unbounded} with an only-if reclamation-rule monitor",
         "All histories of depth 7-9 over {write the interned data of a LOW function (3 values), synthetic write, request the LOW interning function, request a dependent (revalidation), request a HIGH interning function}: a slot is reused for different data only if its old value was only ever interned at LOW durability, the type allows collection, at least `revisions` revisions used the type, and the old value was neither interned nor revalidated in any of the last `revisions` such revisions; every value whose slot was not taken over keeps its id.",
         "Interning functions are uniformly LOW or HIGH (envelope rule). Bounded.", "5/C09"),
 "C10": (E1, "bounded-exhaustive history enumeration over creators that conditionally specify, call-before-specify, call-after-specify, specify twice and specify foreign structs; value reference + body-execution monitor + fresh-database differential",
         "All histories (depth 5-7) over three programs and every order of requesting the creator, the specified function (on each struct, from the top level and from another function) and writes that switch the specifications on and off: values follow the statement's rules (specified value wins unless computed earlier in the same execution; later revisions follow the creator's latest execution; computed value when no longer specified), the body of the specifiable function never runs for a key the creator currently specifies, specifying twice / a foreign struct panics with salsa's message and leaves the database usable.",
         "Bounded. One genuine defect found by this check was repaired (fix: commit 79d3608, see known_findings.json).", "5/C10"),
 "C11": (E1, "bounded-exhaustive history enumeration over accumulating programs; accumulated lists compared with a from-scratch pre-order reference after every mix of reuse, verification, backdating and recomputation",
         "Three programs (conditional and value-dependent pushes at several depths, diamonds, an lru leaf, a never-change leaf, a backdating leaf) x all histories of depth 5-6 over writes, synthetic writes, plain requests and accumulated::<A>() of every node: the returned list equals the reference (each called function once, a function's own values first, callees in first-call order).",
         "For the program that pushes after calls only the multiset is compared (the statement's wording and salsa's documented order differ there). No accumulation inside cycles (documented as unsupported).", "5/C11"),
 "C12": (E1, "bounded-exhaustive enumeration of cyclic programs x histories on the real database against a Kleene least-fixpoint reference and a fresh-database differential",
         "Programs: every 3-node program over 27 monotone node templates on the bit-set lattice (join, meet, input masks, input-controlled branches, calls to any node incl. itself) with cycle_initial = bottom and default / joining cycle_fn (thorough: all 2 x 19683; quick: named shapes + a stride sample), all histories of depth 4 over input writes, every node as entry point, and a code swap that forms/breaks cycles; after every operation the value must equal the least fixpoint computed by Kleene iteration, and a fresh database with the same inputs must agree on every node.",
         "Bounded (3 nodes + optional plain caller, depth 4, 3-bit lattice). Known findings (genuine defects of the pinned tree, see known_findings.json / DESIGN.md) are reported as KNOWN-FINDING lines.", "5/C12"),
 "C13": (E1, "bounded-exhaustive enumeration of cycle_result programs x histories against an SCC-analysis reference and a fresh-database differential",
         "Same program space as C12 with every node declared cycle_result (plus plain callers outside): after every operation of every history each node in a cyclic SCC of the input-determined call graph must return its fallback and every other node its body value; a fresh database must agree.",
         "Bounded as C12. Call edges depend on inputs only (no value-dependent control flow). Known findings reported as KNOWN-FINDING.", "5/C13"),
 "C15": (E1, "bounded-exhaustive history enumeration over fixpoint systems that provably have no fixpoint; panic/iteration-bound/recovery oracle",
         "Six fixpoint-free systems (self-successor, negation pair, nested with a diverging inner cycle, input-conditional divergence, ...; absence of any fixpoint is decided by brute force over the value domain) x all histories of depth 4-5 over writes, requests of every node and a code swap that makes the system monotone: a request into the diverging cycle must panic (iteration limit or propagated panic), never iterate more than 200 times, unrelated nodes answer correctly in the same revision, and after the swap every node equals the least fixpoint.",
         "A hang (no panic at all) would stall the worker and surface as a machinery timeout rather than a VIOLATION line.", "5/C15"),
 "C08": (E1, "bounded-exhaustive history enumeration (sequential part) + exhaustive preemption-bounded schedule exploration (concurrent part) with a canonicity monitor over all interning calls",
         "Sequential: all histories of depth 6-7 over programs that intern the same and different values from two queries and from the top level, for revisions = 1, 3 and unbounded: within a revision equal data <=> equal handle, read-back exact, a value keeps its id unless its slot was reclaimed. Concurrent (E2, thorough tier and quick tier): 2-3 threads interning overlapping values directly and inside tracked functions, every interleaving within the preemption bound: equal data <=> equal handle across threads, read-back exact.",
         "Bounded; SC interleavings; interned data hashes into one shard on purpose.", "5/C08"),
 "C14": (E1, "bounded-exhaustive history enumeration over cycles through non-recovering functions with an operational re-entry oracle (sequential part); exhaustive schedule exploration for the multi-thread part",
         "Programs with pure and mixed (fixpoint + non-recovering) cycles, self cycles and input-conditional cycles; all entry orders and histories of depth 5-6 that form and break the cycle: whenever a function without cycle handling is called while live on the caller's stack the request must end in salsa's cycle panic (never a value, never a hang); any value that is returned equals the least fixpoint; unrelated functions answer correctly throughout and the former members do once the cycle is broken.",
         "A sequential hang would stall the worker (machinery timeout, not a VIOLATION line). The converse (panic only on re-entry) is not demanded by the statement and is only counted.", "5/C14"),
 "C16": (E2, "exhaustive preemption-bounded schedule exploration (iterative context bounding) of the real code on a controlled scheduler; every schedule compared with the sequential reference; deadlock/livelock detection",
         "Every interleaving with <= k preemptions (k=2 for 2 threads, 1 for 3 threads in quick; +1 in thorough) of reader threads on clones of one database over 8 DAG programs with shared sub-queries x several request assignments; in every schedule each request must return the reference value and all threads must terminate (a state with no enabled thread is reported as deadlock, a step bound as livelock).",
         "SC interleavings only; scheduling points = salsa's own sync shim operations; third-party lock-free code executes atomically between points; bounded preemptions and scenarios.", "5/C16"),
 "C17": (E2, "exhaustive preemption-bounded schedule exploration; per-schedule execution-count oracle over one and two revisions",
         "Same harnesses as C16 plus a write between two reader phases: in every explored schedule each (function,key) body runs at most once per revision over all threads, and all values equal the reference.",
         "As C16. Programs are acyclic, no panics/cancellation/eviction (the property's own envelope).", "5/C17"),
 "C18": (E2, "exhaustive preemption-bounded schedule exploration of cyclic programs entered at different members by different threads; values compared with the least-fixpoint / SCC reference",
         "2-cycles, 3-cycles, nested a<->b<->c and conditional cycles with fixpoint (default and joining cycle_fn) and fallback recovery, entered by 2-3 threads at different members, two revisions (the write reshapes the cycle); every schedule with <= k preemptions must terminate with every result equal to the C12/C13 reference.",
         "As C16; k=1 on all harnesses and k=2 on the smallest in quick, k=2 (k=1 for 3 threads) in thorough.", "5/C18"),
 "C20": (E2, "exhaustive preemption-bounded schedule exploration of reader threads on clones against a concurrent writer (input write, synthetic write, set_lru_capacity, trigger_cancellation); outcome-class and post-write reference oracle",
         "Acyclic, fixpoint (2-cycle, nested), cycle_result and lru programs; 2 reader threads run requests under Cancelled::catch and drop their clone when done or cancelled, while the main handle performs the write at every point the scheduler can place it (k=1-2 preemptions, thorough +1): the writer always returns (otherwise the engine reports a deadlock); every reader result is the OLD revision's reference value, Cancelled::PendingWrite, or PropagatedPanic when another reader was cancelled; afterwards every node equals the from-scratch reference of the NEW revision (no provisional fixpoint value of the abandoned iteration survives).",
         "As C16. The cycle_result scenario hits the known C13 defect (KNOWN-FINDING).", "5/C20"),
 "C21": (E2, "exhaustive preemption-bounded schedule exploration of a handle cancelled through its token by another thread at every schedulable moment, with and without a third handle that overlaps",
         "Thread A runs 1-2 requests (acyclic and fixpoint programs), thread B calls cancel() once, an optional thread C requests an overlapping query; afterwards A repeats its requests twice. In every schedule: A's results are the reference or Cancelled::Local, at most one computation is cancelled per cancel(), the request after a cancelled one runs normally, no fixpoint activation is unwound by the cancellation, C always gets the reference (never Local / PropagatedPanic).",
         "CancellationToken uses a std atomic that is not a scheduling point; the cancelling thread yields once before cancel(), so the cancellation can land at every scheduling point of A within the preemption bound.", "5/C21"),
 "C24": (E2, "exhaustive preemption-bounded schedule exploration of threads creating inputs, tracked structs and interned values on their own clones while handles are dropped and re-cloned; pairwise-distinctness and read-back oracle",
         "Seven harnesses: inputs created on fresh clones; a 126/128 page left behind by a dropped handle so that the page-full transition and the hand-over of the unfilled page fall inside the explored window; clones dropped and re-created mid-run; tracked structs created by two creators (and by the same creator) on two threads; interned values; a 3-thread mix. In every schedule (k=2, 1 for the larger ones; thorough +1) all identities of one kind are pairwise distinct across threads and every identity reads back the fields it was created with.",
         "As C16: page allocation goes through salsa's sync shim (atomics + table mutex), boxcar internals execute atomically between scheduling points.", "5/C24"),
 "C22": (E1, "fault enumeration: every history of a bounded set x every user-code callback point reached in it gets a marker panic injected (one run per point) on a fresh real database; the rest of the history and a later revision are compared with the reference",
         "25 programs (plain DAGs, tracked structs incl. colliding identities, interning, specify, fixpoint / joining / fallback cycles) x all histories of depth 2-3 x every callback point (body entry / between reads / exit, cycle_initial, cycle_fn, cycle_result, PartialEq of results and tracked fields, Hash/Eq of identity and interned fields, event callback): the marker must reach the caller of that operation; afterwards, with the panic gone, every request in the same revision (functions depending on a cycle may answer PropagatedPanic there) and every request after one more revision equals the from-scratch reference. Genuine defects found are listed as known findings.",
         "Sequential part only in this round (the waiting-second-thread part is covered by C19/C20/C21 schedules). Injection is suppressed while already unwinding.", "5/C22"),
 "C23": (E1, "bounded-exhaustive history enumeration (the quick history sets of C01, C05-C08, C10-C13, C15 and the panic injection of C22) executed on the real code under a quarantining, poisoning, red-zoned, epoch-accounting global allocator, with every returned reference re-read before the next mutable borrow of the database and a run-twice leak check",
         "Every history of the borrowed sets (writes, evictions, struct deletion, interned reclamation, fixpoint / fallback cycles, non-convergence panics, cancellation, and for the C22 set a panic injected at every callback point) is run twice on fresh databases in one process under an allocator that (a) surrounds each block with a header and red zones checked on free (out-of-bounds writes, invalid and double frees), (b) poisons freed blocks and keeps them in a quarantine for the rest of the history so that every read through a dangling pointer sees the poison (values carry a canary pattern that is checked on every read; every reference handed out by a tracked function or field getter is retained as a raw pointer and re-read just before the next mutable borrow: it must still hold the value it had), and checks the poison when the quarantine is drained (write after free), (c) tags blocks with an allocation epoch: no block allocated during the second run may be live after its database was dropped. A crash of a worker process is attributed to the case it was running and reported as a violation.",
         "Detection is through effects: an out-of-bounds or dangling READ whose result salsa discards is invisible to these monitors (Miri/ASan runs were not built in this round); red zones are 16 bytes behind / 24 bytes before a block. Single-threaded histories only. The allocator monitor is self-tested at the start of every worker.", "5/C23"),
 "C25": ("E4 edgex", "exhaustive enumeration of edge sequences over boundary classes of the compact encoding, through read-only hook H1, in the default and the persistence configuration",
         "Every sequence of up to 2 (quick) / 3 (thorough) edges over 240 edge values (kind x ingredient {0,1,0xFFE,0xFFF,0x1000,0x7FFFFFFF} x index {0,1,2^31,max} x generation {0,1,0xFFFFF,0x100000,u32::MAX}) x origin kind x 5 combinations of extra revision data is stored through salsa's constructors: decoded edges equal the sequence in order, kind and key (forward and reverse), the input and output views partition it, attaching extra data later and clearing the edges preserve edges / extra data, and (persistence build) a serde round trip of the revisions decodes to the same edges and extra data.",
         "Hook H1 (cargo feature salsa_verif) only re-exports construction/decoding; no logic. Longer sequences are outside the bound.", "5/C25"),
 "C26": (E1, "bounded-exhaustive history enumeration with a RoundTrip operation (serialize to JSON, deserialize into a fresh database, continue there) against the reference, the restored-memo monitor and a fresh-database differential",
         "Ten programs over persisted inputs, interned values, tracked structs and functions (plus one with a non-persisted function between two persisted ones, whose dependencies must be flattened) x all histories of depth 4-5 over writes, requests and RoundTrip at every position: values equal the reference before and after every round trip; a result that was valid when the database was serialized is not re-executed afterwards while its inputs are unchanged; after any later writes the restored database still equals the reference and a fresh database. Genuine defects found: one repaired (fix: commit cc47c5f), two listed as known findings.",
         "Bounded; salsa's persistence build (feature persistence) is the unit under test here.", "5/C26"),
 "C19": ("E3 proto", "exhaustive preemption-bounded schedule exploration of the real code with protocol monitors on the H2 trace of every schedule (layer 1); explicit-state exploration of a model of the protocol bound to the code by replaying every real trace on the model (layers 2-3)",
         "Every schedule of the C14/C16/C18/C20/C21 harnesses (cross-thread cycles with lock transfer, panicking and cancelled computations, readers blocked on each other) is re-explored with hook H2 recording every wait / wake / resume / transfer / release together with a copy of the dependency-graph state; on every event: the wait graph is acyclic and no wait is entered towards a thread that (transitively) waits for the waiter; the transfer relation is a forest with an exact inverse index; each blocked thread is woken exactly once, with the result of the computation it waited for (completed / panicked / cancelled, or completed on hand-over of ownership), and resumes exactly once with it; every waiter's edge points at the thread that owns the awaited query through the transfer chain; releasing a query leaves nobody waiting on it or on queries transferred to it; nobody is left blocked at the end. Deadlock/livelock are reported by the engine. Layer 3: every recorded trace is replayed on a model of the dependency graph (mc/drv/src/pmodel.rs, transcribed operation by operation); after every operation the model state must equal the copy of the real state. Layer 2: breadth-first exploration of all reachable states of that model closed by an environment transcribed from sync.rs / fetch.rs / execute.rs (claim, cycle detection, transitive cycle-head resolution, outer-cycle choice, lock transfer, re-entrant claim, one extra iteration of outermost heads, panics with poisoning) for 2-3 threads over 10 (quick) / 14 (thorough) call graphs of 2-4 queries, every assignment of entry queries and 0-2 panics: the same invariants in every state, no operation precondition violated, no deadlock, dependency graph empty when all threads are done.",
         "Hook H2 (feature salsa_verif) only copies state under the lock. SC interleavings; bounds as the borrowed harnesses. The environment of layer 2 is an abstraction of execute.rs/fetch.rs (every claimed provisional query is re-executed; values are not modelled); it is bound to the code only through the model operations it calls.", "5/C19"),
}

NOT_YET = {}

def main():
    ids = ["C%02d" % i for i in range(1, 27)]
    checks = []
    na = []
    for i in ids:
        if i in CHECKS:
            eng, tech, text, note, ref = CHECKS[i]
            checks.append({
                "property_id": i,
                "quick_cmd": f"./check {i} quick",
                "thorough_cmd": f"./check {i} thorough",
                "evidence_file": f"/verif/evidence/{i}.json",
                "replay_cmd_template": f"./check {i} --replay {{path}}",
                "engine": eng,
                "level_claimed": {"category": "model_checking", "text": text, "design_ref": "DESIGN.md " + ref},
                "level_note": note,
                "technique": tech,
            })
        else:
            na.append({"property_id": i, "reason": NOT_YET.get(i, "check not built yet in this round (planned in DESIGN.md section 5); not claimed until it exists and passes on the unchanged tree")})
    m = {
        "version": 1,
        "setup_cmd": "./check setup",
        "hooks": {
            "guard": "cargo feature salsa_verif (off by default)",
            "enable": "the harness crates depend on salsa = { path = \"/repo\" } and enable the feature through ql's `hooks` feature",
            "baseline_off_cmd": "cd /repo && cargo nextest run --workspace --no-fail-fast --tool-config-file pb:/w/lib/nextest.toml --profile pb --test-threads 8 --offline || cargo test --workspace --no-fail-fast --offline",
            "source_commits": ["390127b", "7850f91", "a4e4c7a"],
            "add_only": True,
        },
        "engines": [
            {"name": "E1 histx", "path": "/verif/mc/drv/src/e1.rs", "serves_properties": [c["property_id"] for c in checks if c["engine"] == E1],
             "kind_free_text": "bounded-exhaustive enumeration of operation histories, each replayed on a fresh real salsa database; oracles: reference interpreter, fresh-database differential, log monitors"},
            {"name": "E3 proto", "path": "/verif/mc/drv/src/proto.rs", "serves_properties": ["C19"],
             "kind_free_text": "protocol monitors over hook H2 traces of every explored schedule; model of the claim/wait/transfer protocol (pmodel.rs) with conformance replay of every real trace; explicit-state BFS of the model under an environment (pexplore.rs)"},
            {"name": "E4 edgex", "path": "/verif/mc/drv/src/e4.rs", "serves_properties": ["C25"],
             "kind_free_text": "exhaustive input enumeration of the edge encoding through hook H1"},
            {"name": "E2 ctl", "path": "/verif/mc/ctl/src/engine.rs", "serves_properties": [c["property_id"] for c in checks if c["engine"] == E2],
             "kind_free_text": "drop-in replacement of the shuttle crate (selected by [patch.crates-io]) running salsa's shuttle build on real OS threads under an exhaustive preemption-bounded DFS scheduler; self-validated by litmus tests in setup"},
        ],
        "checks": checks,
        "not_applicable": na,
        "notes": "Exit codes: 0 held, 1 violation (VIOLATION line), 2 machinery failure. See DESIGN.md.",
    }
    with open(os.path.join(ROOT, "MANIFEST.json"), "w") as f:
        json.dump(m, f, indent=1)
        f.write("\n")

if __name__ == "__main__":
    main()
