#!/usr/bin/env python3
"""Generates /verif/MANIFEST.json. Edit BUILT / texts here, then run it."""
import json, os

ROOT = os.path.dirname(os.path.dirname(os.path.abspath(__file__)))

# property id -> (engine, technique, level text, level note, design ref)
E1 = "E1 histx"
E2 = "E2 ctl"
CHECKS = {
 "C01": (E1, "bounded-exhaustive enumeration of operation histories on the real database, compared step-by-step with a reference interpreter and a fresh-database differential",
         "All histories up to the stated depth over a forced-collision alphabet (2 cells x 2 values, synthetic writes, untracked changes, every node as entry) for every listed 3-4 node program are executed on a fresh real database; after every operation the result must equal the memo-free reference interpreter, and a second fresh database holding the same inputs must agree. A coverage statement over programs x histories, which the fixed-scenario tests cannot give.",
         "Bounded (3-4 nodes, depth 4-5, binary value domains). Trusts the reference interpreter ql/src/refm.rs; second oracle is salsa itself on a fresh database.", "5/C01"),
 "C02": (E1, "bounded-exhaustive history enumeration with durability-changing writes against reference + frozen-field model + fresh-database differential",
         "Every history up to the depth over writes with all four durabilities (equal and different values, raising and lowering), synthetic writes incl. NEVER_CHANGE, and requests, on programs whose inputs and code carry mixed durabilities; oracle: reference value, frozen-set model for never-change writes (must panic, later results unchanged), final fresh-database sweep.",
         "Bounded as stated in evidence. Never-change panics are matched by message.", "5/C02"),
 "C03": (E1, "bounded-exhaustive history enumeration with an execution-justification monitor (only-if oracle on WillExecute)",
         "Every body execution observed in every history must be justified by a change the harness recorded since the function's last validation (written input field, changed callee value / no_eq / durability change, recreated tracked field, reclaimed interned value, untracked read, eviction). Exhaustive over histories, so every combination of backdating, unread-field writes and partial reuse inside the bound is covered.",
         "Only-if monitor: whatever it cannot classify counts as justified (can miss a regression, cannot invent one). Acyclic programs, no panics/cancellation.", "5/C03"),
 "C04": (E1, "bounded-exhaustive history enumeration over programs with untracked reads; must-re-execute monitor + reference values",
         "For every history over external-cell changes published by synthetic writes of LOW/MEDIUM/HIGH durability, input writes and requests: every answer of a function whose last execution read untracked state must have been produced by an execution in the same revision, values equal the reference reading the external cells as of that revision, and dependents obey the C03 justification monitor (equal value => reused).",
         "Bounded depth/programs. External state only changes together with a new revision (salsa's documented contract).", "5/C04"),
}

NOT_YET = {}

def main():
    ids = ["C%02d" % i for i in range(1, 27)]
    checks = []
    na = []
    for i in ids:
        if i in CHECKS:
            eng, tech, text, note, ref = CHECKS[i]
            checks.append({
                "property_id": i,
                "quick_cmd": f"./check {i} quick",
                "thorough_cmd": f"./check {i} thorough",
                "evidence_file": f"/verif/evidence/{i}.json",
                "replay_cmd_template": f"./check {i} --replay {{path}}",
                "engine": eng,
                "level_claimed": {"category": "model_checking", "text": text, "design_ref": "DESIGN.md " + ref},
                "level_note": note,
                "technique": tech,
            })
        else:
            na.append({"property_id": i, "reason": NOT_YET.get(i, "check not built yet in this round (planned in DESIGN.md section 5); not claimed until it exists and passes on the unchanged tree")})
    m = {
        "version": 1,
        "setup_cmd": "./check setup",
        "hooks": {
            "guard": "cargo feature salsa_verif (off by default)",
            "enable": "the harness crates depend on salsa = { path = \"/repo\" } and enable the feature through ql's `hooks` feature",
            "baseline_off_cmd": "cd /repo && cargo nextest run --workspace --no-fail-fast --tool-config-file pb:/w/lib/nextest.toml --profile pb --test-threads 8 --offline || cargo test --workspace --no-fail-fast --offline",
            "source_commits": [],
            "add_only": True,
        },
        "engines": [
            {"name": "E1 histx", "path": "/verif/mc/drv/src/e1.rs", "serves_properties": [c["property_id"] for c in checks if c["engine"] == E1],
             "kind_free_text": "bounded-exhaustive enumeration of operation histories, each replayed on a fresh real salsa database; oracles: reference interpreter, fresh-database differential, log monitors"},
        ],
        "checks": checks,
        "not_applicable": na,
        "notes": "Exit codes: 0 held, 1 violation (VIOLATION line), 2 machinery failure. See DESIGN.md.",
    }
    with open(os.path.join(ROOT, "MANIFEST.json"), "w") as f:
        json.dump(m, f, indent=1)
        f.write("\n")

if __name__ == "__main__":
    main()
