#!/usr/bin/env python3
"""Development aid: run a check on the UNCHANGED tree and record, per known-finding class, the
inputs (programs / scenarios) on which it manifests, into known_findings.json (`inputs`).
Never used by the registered commands."""
import json, os, subprocess, sys, tempfile
root = os.path.dirname(os.path.dirname(os.path.abspath(__file__)))
pid, tier = sys.argv[1], (sys.argv[2] if len(sys.argv) > 2 else "quick")
kf_path = os.path.join(root, "known_findings.json")
kf = json.load(open(kf_path))
sigs = set()
cfgs = {"C08": ["seq", "conc"], "C14": ["seq", "conc"], "C22": ["seq", "conc"], "C23": ["mem", "memconc"], "C25": ["seq", "persist"], "C26": ["persist"]}.get(pid, ["conc"] if pid in ("C16","C17","C18","C19","C20","C21","C24") else ["seq"])
if subprocess.run([os.path.join(root, "check"), "build"] + cfgs).returncode != 0:
    sys.exit("build failed")
if subprocess.run(["git", "-C", "/repo", "status", "--short"], capture_output=True, text=True).stdout.strip():
    sys.exit("/repo is not clean: known findings are collected on the unchanged tree only")
for cfg in cfgs:
    with tempfile.NamedTemporaryFile() as tf:
        env = dict(os.environ, MC_SIG_DUMP=tf.name, VERIF_ROOT=root, MC_EVIDENCE_SUFFIX="collect")
        subprocess.run([os.path.join(root, "target", cfg, "release", "mc"), "check", pid, "--tier", tier], env=env, stdout=subprocess.DEVNULL)
        sigs |= set(open(tf.name).read().split("\n")) - {""}
for k in kf:
    if k["property"] != pid or k["status"] != "open" or k.get("identified_by"):
        # (findings identified by call site carry no input list)
        continue
    pre = k["signature_prefix"]
    ins = sorted({s[len(pre):].lstrip(":") for s in sigs if s.startswith(pre) and len(s) > len(pre)})
    if ins:
        field = "inputs" if tier == "quick" else "inputs_thorough"
        k[field] = sorted(set(k.get(field, [])) | set(ins))
        if tier != "quick":
            k[field] = sorted(set(k[field]) - set(k.get("inputs", [])))
        print(pre, len(k[field]), field)
json.dump(kf, open(kf_path, "w"), indent=1)
left = [s for s in sigs if not any(s.startswith(k["signature_prefix"]) for k in kf if k["property"] == pid and k["status"] == "open")]
print("unmatched signatures:", left[:10])
